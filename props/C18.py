PROPERTY = "C18"
LEVEL = "proof"
CONTRACT_MODULES = ["modeltypes", "config", "metadata", "holders", "runner", "io"]
R = "sqllineage.runner.LineageRunner."
ABS = ["modeltypes", "config", "metadata", "holders", "runner", "io_abstract"]
FUNCTIONS = [
    "sqllineage.io.to_cytoscape",
    (R + "to_cytoscape", ABS),
    (R + "__str__", ABS),
    (R + "statements", ABS),
    (R + "source_tables", ABS),
    (R + "target_tables", ABS),
    (R + "intermediate_tables", ABS),
]
EXPLANATION = (
    "io.to_cytoscape (table level) is executed symbolically from its real source for an arbitrary graph: one record per node "
    "with id = printed name, one record per edge with source/target = printed endpoints, and every endpoint is the id of an "
    "exported node (witness index given by the enumeration's inverse). LineageRunner.to_cytoscape selects the column view "
    "with compound parents iff level == 'column'. The text summary is proved equal to the reference rendering over the sorted "
    "accessor lists, and those lists are proved to be exactly the role sets, each table once, sorted by printed name. "
    "The COLUMN-level body of io.to_cytoscape (dict comprehension keyed by owner, nested candidate lists) was brought under "
    "the executor but its obligations stay `unknown` in z3: it is covered by the bounded native stand-in only and is NOT "
    "counted as proved. Id uniqueness is refuted on the unchanged tree (known finding D15)."
)
TRUSTED = ["pyvc translator; assumed networkx view model (nodes/edges enumeration is a function of the graph)", "z3", "A_eq", "trim_comment/sqlparse assumed a function of the text"]
ASSUMPTIONS = [
    "column-level export (compound parents): bounded native check only (corpus of 14 scripts x {no metadata, metadata}), not proved",
    "drawing.lineage returns the three exports unchanged (three expressions placed in a dict: read off the source; covered by the native POST /lineage check of C17's harness)",
    "ids unique: not claimed (known finding D15)",
]
REPLAYERS = {("", ""): {"script": "replay/c18_native.py", "args": []}}
BOUNDED = [
    {
        "name": "C18 native export/summary check on the real runner (both levels)",
        "script": "replay/c18_native.py",
        "args": [],
        "bound": "14 scripts (joins with unresolved owners, derived tables, paths, self loops, drop/rename, empty script) x {no metadata, dict metadata}; column-level referential integrity and owner records are decided here only",
    }
]
LEVEL_TEXT = (
    "Proof (z3) for the table-level export (exact node and edge records, referential integrity), for the level selection, "
    "for the text summary against the reference rendering and for the sorted accessor lists; the column-level export is a "
    "bounded native stand-in (labelled bounded, not counted as proved); id uniqueness is a known finding (D15)."
)
DESIGN_REF = "DESIGN.md 6/C18, 11"
LEVEL_NOTE = "trusted: pyvc, z3, networkx view model, A_eq; column-level export bounded only; D15 open"
TECHNIQUE = "contract-based deductive verification (comprehensions over graph views as enumerations) + bounded native stand-in for the column-level body"
