PROPERTY = "C15"
LEVEL = "proof"
CONTRACT_MODULES = ["config", "lemmas_c15"]
M = "sqllineage.config._SQLLineageConfigLoader."
G = "verif_ghost.c15."
FUNCTIONS = [M + f for f in ("parse_value", "get_ident", "__getattr__", "__setattr__", "__call__", "__enter__", "__exit__")] + [
    G + f for f in ("scope_roundtrip", "scope_exception", "rejected_nested", "rejected_unknown_key")
]
EXPLANATION = (
    "Every method of sqllineage/config.py is executed symbolically from its real source against sidecar contracts; "
    "the `stable.*` obligations assert after EVERY statement that no other thread's slot and no other thread's scope "
    "mark changes (rely/guarantee frame), from which thread-locality under every interleaving follows by induction on "
    "the schedule (DESIGN 6/C15); scoping, exception exit, rejected nested scope and rejected unknown key are lemma "
    "clients verified against the contracts only."
)
TRUSTED = [
    "pyvc translator (ast -> VC) and its models of dict/set/str primitives",
    "z3",
    "CPython: one dict/set primitive is atomic under the GIL",
    "threading.get_ident(): constant during an activation, distinct for threads alive at the same time",
    "os.environ: arbitrary but fixed during one read",
]
ASSUMPTIONS = [
    "non-interference for arbitrary interleavings is the standard induction over schedules from the per-statement stable-frame obligations (stated in DESIGN.md, not mechanised)",
    "str()/int()/str.lower()/str.strip() inside parse_value are uninterpreted: only the type of the result is proved (bool for bool keys, str for str keys)",
    "no monkey-patching of the config object; `config` table is the class attribute read from source",
]
REPLAYERS = {
    ("_SQLLineageConfigLoader.__call__", ""): {"script": "replay/c15_native.py", "args": ["call"]},
    ("_SQLLineageConfigLoader.__enter__", ""): {"script": "replay/c15_native.py", "args": ["enter"]},
    ("_SQLLineageConfigLoader.__exit__", ""): {"script": "replay/c15_native.py", "args": ["exit"]},
    ("_SQLLineageConfigLoader.__getattr__", ""): {"script": "replay/c15_native.py", "args": ["getattr"]},
    ("_SQLLineageConfigLoader.__setattr__", ""): {"script": "replay/c15_native.py", "args": ["setattr"]},
    ("_SQLLineageConfigLoader.parse_value", ""): {"script": "replay/c15_native.py", "args": ["parse"]},
    ("c15.", ""): {"script": "replay/c15_native.py", "args": ["protocol"]},
}

BOUNDED = [
    {
        "name": "C15 run-time contract cross-check on the real object",
        "script": "replay/c15_native.py",
        "args_quick": ["all", "--depth", "2"],
        "args_thorough": ["all", "--depth", "3"],
        "bound": "all sequences of <= 2 (thorough: 3) operations from {override call with 13 keyword shapes, enter, exit, setattr, with-block (+ nested / + exception)} on a fresh config object while a second live thread holds an open scope",
    }
]
LEVEL_TEXT = (
    "Proof (z3) of pre/post/raises/frame obligations generated from the real source of every method of "
    "sqllineage/config.py, plus per-statement stable-frame obligations (no other thread's slot or scope mark changes "
    "after any statement) and four lemma clients over the contracts (scope round trip, exception exit, rejected nested "
    "scope, rejected unknown key). All interleavings follow from the stable frame by induction on the schedule. "
    "A bounded native run of the real object under the same clauses is a cross-check only."
)
DESIGN_REF = "DESIGN.md 6/C15, 11"
LEVEL_NOTE = "trusted: pyvc VC generator and its dict/set/str models, z3, GIL atomicity of one dict/set primitive, threading.get_ident, os.environ fixed during a read; parse_value's string built-ins are uninterpreted (only result types proved)"
TECHNIQUE = "contract-based deductive verification (sidecar contracts, ast->VC, z3), stable-frame non-interference"
