PROPERTY = "C04"
LEVEL = "proof"
CONTRACT_MODULES = ["modeltypes", "config", "metadata", "runner"]
P = "sqllineage.core.metadata_provider."
FUNCTIONS = [
    "sqllineage.runner.LineageRunner._eval",
    (P + "MetaDataProvider.get_table_columns", ["modeltypes", "config", "metadata", "metadata_c13"]),
    P + "MetaDataProvider.__init__",
    P + "MetaDataProvider.register_session_metadata",
    P + "MetaDataSession.register_session_metadata",
]
EXPLANATION = (
    "The cross-statement mechanism of the repository is the metadata session: what statement i teaches, statement j > i may "
    "look up. It is put under contract end to end: (1) LineageRunner._eval's statement loop carries a STEP contract (C04 "
    "clauses): after statement i, if it writes exactly one Table t with a non-empty column list, the session maps str(t) to "
    "exactly [c.raw_name for c in stmt_holder.get_table_columns(t)] (the columns the statement's own graph gives t, in "
    "order); a statement that writes nothing teaches nothing. (2) register_session_metadata (provider and session) stores "
    "exactly that list under exactly that key and touches no other key. (3) MetaDataProvider.get_table_columns answers "
    "from the session FIRST (session entry wins over the catalog), one Column per listed name, owned by the asked table. "
    "Together: the columns of a table created earlier in the script are what later statements see. NOT decided by proof: "
    "that end-to-end paths equal the relational composition of the per-statement dataflows - composition happens by node "
    "identity in nx.compose (C03/C06 contracts) over column nodes produced by the extractors; the bounded native run "
    "enumerates chain shapes x column patterns against a composition oracle."
)
TRUSTED = ["pyvc translator", "z3", "ASSUMED: analyzer.analyze returns a fresh holder (C12)", "A_eq"]
ASSUMPTIONS = [
    "one write target per statement (|write| == 1) in the step clause",
    "the step clause 'teaches nothing about other tables' is not discharged by z3 (nested quantifier over printed names) and is left to the bounded run",
    "composition of dataflows across statements: bounded native run only",
]
REPLAYERS = {("", ""): {"script": "replay/c04_native.py", "args": []}}
BOUNDED = [
    {
        "name": "C04 native chain-composition run",
        "script": "replay/c04_native.py",
        "args_quick": [],
        "args_thorough": ["--thorough"],
        "bound": "all chains of 2-3 statements (thorough: 2-4) over 5 per-step column patterns (same names, renamed, expression, dropped column, SELECT *) x {no provider, provider} x {ansi, non-validating} against a composition oracle; 6 extra scripts (diamond, unqualified column defined by an earlier target, re-creation over a catalog table, self-referencing insert, wildcard over wildcard); + one unqualified column of an earlier target feeding two outputs of a join (with / without provider)",
    }
]
LEVEL_TEXT = (
    "Proof (z3) of the session hand-over: step contract of the runner's statement loop, register contract, session-first "
    "look-up postcondition. The composition of dataflows across statements is a bounded native stand-in."
)
DESIGN_REF = "DESIGN.md 6/C04, 11"
LEVEL_NOTE = "trusted: pyvc, z3; composition clause bounded only; step frame clause for other keys left to the bounded run"
TECHNIQUE = "contract-based deductive verification (loop step contract of the session hand-over, look-up postcondition) + bounded native chain-composition run"
