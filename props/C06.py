from pyvc import sitescan

PROPERTY = "C06"
LEVEL = "proof"
CONTRACT_MODULES = ["modeltypes", "config", "metadata", "holders", "holders_c06"]
SQ = "sqllineage.core.holders.SubQueryLineageHolder."
M = "sqllineage.core.models."
MODELS = ["modeltypes", "config", "models"]
FUNCTIONS = [
    "sqllineage.core.holders.ColumnLineageMixin.get_column_lineage",
    SQ + "add_column_lineage",
    SQ + "add_write_column",
    SQ + "_property_setter",
    SQ + "add_read",
    SQ + "add_write",
    SQ + "add_cte",
    SQ + "get_table_columns",
    SQ + "_get_target_table",
    SQ + "get_source_columns",
    ("sqllineage.core.holders.SubQueryLineageHolder._replace_wildcard", ["modeltypes", "config", "metadata", "holders", "holders_c13"]),
    ("sqllineage.core.holders.SQLLineageHolder._build_digraph", ["modeltypes", "config", "metadata", "holders"]),
] + [(M + c + m, MODELS) for c in ("Column.", "Table.", "SubQuery.", "Path.", "Schema.") for m in ("__eq__", "__hash__")]
SITE_CHECKS = [("owner assigned before insertion; owner sets only grow (K3 typestate)", lambda repo: sitescan.owner_stores(repo, "C06"))]
EXPLANATION = (
    "Well-formedness is split into (1) the path shape and (2) the representation invariant that makes paths meaningful. "
    "(1) ColumnLineageMixin.get_column_lineage is verified against: every returned tuple has at least two elements (the "
    "repaired D6: networkx's all_simple_paths yields the one-node path for source == target - assumed contract of the "
    "library function) and consecutive elements are edges of the graph; both by loop invariants over the product loop and "
    "the path loop. (2) The mutators that put columns into the graph (add_column_lineage, add_write_column, "
    "_replace_wildcard) keep the graph TYPED - lineage edges join Columns, a has_column edge p -> c has p among c's owners "
    "; the assembly (_build_digraph, C03's step contract) removes a dropped table only when NOTHING is attached to it (degree 0 in the whole graph, columns included), so no column is orphaned "
    "- and add_column_lineage adds exactly the dependency edge and the two ownership edges (frame over all other edges). "
    "Retrievability by equality and hash: __eq__/__hash__ of the five node classes are verified (equal objects print alike, "
    "hash is a function of the printed name), and the K3 typestate scan shows that every `.parent = ...` store is on a "
    "column created in the same function (13 sites proved, 3 assumed with justification) and that owner sets only grow, so "
    "a node's hash never changes while it is in a graph. NOT decided by proof: the cross-level clauses (owner of the last "
    "column is a target/intermediate table, source owners are read tables, table graph connects them) - they depend on the "
    "extractors' wiring and are checked by the bounded native corpus run; 4 known findings there (D21-D24)."
)
TRUSTED = ["pyvc translator and its networkx model", "z3", "ASSUMED contract of nx.all_simple_paths (paths start at source, end at target, follow edges; one-node path iff source == target)", "A_eq"]
ASSUMPTIONS = [
    "get_column_lineage is verified for the default exclude_subquery_columns=False",
    "end-point clauses (first column has no column predecessor, last no column successor) are bounded-only: z3 does not finish the degree reasoning through the filtered sub-graph view",
    "add_column_lineage's precondition (target has exactly one owner, owners are objects) is a call-site assumption: its 7 call sites are in extraction code",
    "3 owner-store sites are assumed (columns handed to add_write_column / collected by the extractor are not yet nodes)",
]
REPLAYERS = {("", ""): {"script": "replay/c06_native.py", "args": []}}
BOUNDED = [
    {
        "name": "C06 native corpus run",
        "script": "replay/c06_native.py",
        "args_quick": [],
        "args_thorough": ["--thorough"],
        "bound": "harvested corpus re-read from the repository on every run (about 340 test-suite SQL strings with their dialects, 20 dialects; 99 bundled TPC-DS queries) + 14 generated scripts; every clause of C06 evaluated on every result (thorough: also the non-validating analyzer on every ansi input); the 9 recorded witnesses of D21-D24 are excluded and re-confirmed separately",
    }
]
LEVEL_TEXT = (
    "Proof (z3) of the path shape (>= 2 elements, chain of edges), of the typed-graph invariant over the column mutators, of "
    "eq/hash consistency of the node classes; K3 typestate scan for owner stores. Cross-level consistency and path end "
    "points are a bounded native corpus run; D21-D24 are open known findings, D6 and D25 were repaired."
)
DESIGN_REF = "DESIGN.md 6/C06, 11"
LEVEL_NOTE = "trusted: pyvc, z3, networkx (all_simple_paths contract assumed); cross-level clauses bounded only; D21-D24 open"
TECHNIQUE = "contract-based deductive verification (path postcondition by loop invariants, typed-graph representation invariant, eq/hash contracts) + owner-store typestate scan + bounded native corpus run"
