from pyvc import framescan, sitescan

PROPERTY = "C13"
LEVEL = "proof"
CONTRACT_MODULES = ["modeltypes", "config", "metadata"]
P = "sqllineage.core.metadata_provider.MetaDataProvider."
D = "sqllineage.core.metadata.dummy.DummyMetaDataProvider."
FUNCTIONS = [
    (P + "get_table_columns", ["modeltypes", "config", "metadata", "metadata_c13"]),
    P + "__bool__",
    D + "__init__",
    D + "__bool__",
    D + "_get_table_columns",
    "sqllineage.core.metadata_provider.MetaDataSession.__exit__",
    ("sqllineage.core.holders.SubQueryLineageHolder._replace_wildcard", ["modeltypes", "config", "metadata", "holders", "holders_c13"]),
    ("sqllineage.core.holders.SQLLineageHolder._build_digraph", ["modeltypes", "config", "metadata", "holders"]),
]
_FRAME_CLAUSES = ("no_shared_class_state", "per_instance_state_created_in_init", "no_shared_default_argument_state")
SITE_CHECKS = [
    ("catalog look-ups gated by the provider's truth value (K3)", lambda repo: sitescan.gated_lookups(repo, "C13")),
    ("no provider state shared between instances (K2 subset)", lambda repo: [o for o in framescan.scan(repo, "C13") if o["clause"] in _FRAME_CLAUSES]),
]
EXPLANATION = (
    "C13 is relative (with vs without metadata, known vs unknown table). It is decomposed into contracts on the code that can "
    "let metadata in: (1) MetaDataProvider.get_table_columns is verified against its exact postcondition: one Column per "
    "listed name, each owned by exactly the asked table, named by the listed name normalised once, none for a table that "
    "neither the session nor the catalog lists (loop invariant with allocation); DummyMetaDataProvider's catalog look-up "
    "and truth value are verified (unknown table -> [], ready iff non-empty). (2) K3: every catalog look-up in the package "
    "is dominated by a test of the provider's TRUTH VALUE (4 sites; `is not None` does not count), so a provider without "
    "metadata is never consulted. (3) Table-level frame: _replace_wildcard (statement level) and the metadata section of "
    "_build_digraph (script level, C03's contract, loops 4-7) leave the table view (dataset nodes, dataset->dataset edges, "
    "role tags) untouched for ARBITRARY provider answers, including wrong ones. (4) K2 subset: no class-level or default-"
    "argument object is shared between provider instances. NOT decided by proof: the attribution clauses themselves "
    "(which columns SELECT * expands to, which table an unqualified column goes to, positional INSERT naming) live in the "
    "extractors and in expand_wildcard's caller protocol; they are checked by the bounded native run against an oracle "
    "computed from the knowledge assignment."
)
TRUSTED = ["pyvc translator and its networkx model", "z3", "ASSUMED: MetaDataProvider._get_table_columns (abstract hook) is a function of (provider, schema, table) or raises", "A_eq"]
ASSUMPTIONS = [
    "escape_identifier_name is used as an uninterpreted pure function here (its postcondition is proved under C16)",
    "_replace_wildcard's preconditions (target and column owners are nodes of the statement graph) are not checked at its only call site: expand_wildcard is covered by the bounded run only",
    "a table written earlier in the same script counts as known (session metadata, C04): 'same answer as without metadata' is compared per single statement",
    "SQLAlchemy provider: only the bounded run (in-memory sqlite) exercises it; sqlalchemy itself is trusted",
]
REPLAYERS = {("", ""): {"script": "replay/c13_native.py", "args": []}}
BOUNDED = [
    {
        "name": "C13 native knowledge-assignment run",
        "script": "replay/c13_native.py",
        "args_quick": [],
        "args_thorough": ["--thorough"],
        "bound": "9 statement shapes (15 thorough: 3 relations, sub-query, CTE) x every subset of the tables in scope known x column overlap none/partial x {dict provider, SQLAlchemy on in-memory sqlite} x {ansi, non-validating}; 8 scripts for table-level equality incl. empty and unrelated providers; provider isolation; no-provider baseline; + two in-scope tables with the same bare name in different schemas (both join orders, both providers); + a provider reused after a run that failed part-way",
    }
]
LEVEL_TEXT = (
    "Proof (z3) of the provider look-up contract, of the table-view frame of wildcard expansion and of the assembly's metadata "
    "section for arbitrary provider answers; K3 gating and K2 sharing by scan. The attribution clauses are a bounded native "
    "stand-in. D20 is an open known finding; D11, D19 (and D12) were repaired."
)
DESIGN_REF = "DESIGN.md 6/C13, 11"
LEVEL_NOTE = "trusted: pyvc, z3, sqlalchemy; attribution clauses bounded only; expand_wildcard's call protocol unchecked; D20 open"
TECHNIQUE = "contract-based deductive verification (provider look-up postcondition, table-view frames) + gating/sharing site scans + bounded native knowledge-assignment run"
