PROPERTY = "C17"
LEVEL = "proof"
CONTRACT_MODULES = ["modeltypes", "config", "drawing"]
A = "sqllineage.drawing.SQLLineageApp.__call__#"
import os

FUNCTIONS = [A + c for c in ("GET", "POST_script", "POST_directory", "POST_other", "other_methods")] + ["sqllineage.drawing.lineage"]
if os.environ.get("VERIF_TIER") == "thorough" or "thorough" in " ".join(__import__("sys").argv):
    # the monolithic case (guard + /lineage handler in one symbolic execution, ~1800 paths) only in the thorough tier;
    # the quick tier proves the same clause modularly: route-independent guard (POST_script/POST_directory cases) + handler contract
    FUNCTIONS.append(A + "POST_lineage")
EXPLANATION = (
    "SQLLineageApp.__call__ and the three route handlers are executed symbolically from their real source, one contract case "
    "per request class (GET, POST /script, /directory, /lineage, POST to an unknown route, other methods), for arbitrary "
    "environ and JSON payloads. Every open() and every iterdir() is recorded in a ghost trace; the obligations say that on "
    "EVERY exit (normal or exceptional) each touched path is inside the static folder (GET) or inside the configured root (POST), that refusals carry the three constant bodies, and that other methods touch nothing and "
    "get 405. Paths are an axiomatised abstract model (pyvc/path_model.py): containment is `inside` = part-wise containment "
    "after resolving '.' and '..'."
)
TRUSTED = [
    "pyvc translator; ASSUMED path model of pathlib/os.path/open on POSIX without symlinks (axioms J1-J2, D1-D2, R1-R3, S1 in pyvc/path_model.py), validated bounded by the native C17 enumeration",
    "z3",
    "ASSUMED: LineageRunner (analysis) opens no file named by the request; json.loads returns a dict or raises ValueError",
    "C15 contract of SQLLineageConfig.__getattr__ for the default directory",
]
ASSUMPTIONS = [
    "the package install path has no '..' part; the WSGI callable is the module-level `app`",
    "symlinks are outside the model and outside the property's statement; the repaired guard resolves them (is_relative_to on resolved paths)",
    "exceptions that escape the app (TypeError for non-text paths, ValueError for bad JSON / CONTENT_LENGTH) disclose nothing: checked by the same ghost trace on the exceptional exits",
]
REPLAYERS = {("", ""): {"script": "replay/c17_native.py", "args": ["--segments", "3"]}}
BOUNDED = [
    {
        "name": "C17 native path enumeration against the real WSGI app on a scratch tree",
        "script": "replay/c17_native.py",
        "args_quick": ["--segments", "3"],
        "args_thorough": ["--segments", "5"],
        "bound": "every path of <= 3 (thorough: 5) segments over {.., ., child, nested child, sibling-with-common-prefix, outside dir, file-as-directory, empty} in relative and absolute form x {GET, POST /script, /directory f, /directory d, /lineage f} x leading-slash variants; marker files outside the roots",
    }
]
LEVEL_TEXT = (
    "Proof (z3) over the real source of the WSGI app and its route handlers that every file opened and every directory "
    "listed while answering any request lies inside the static folder (GET) or the configured SQL root (POST), on normal and "
    "exceptional exits, under an axiomatised POSIX path model; refusals have constant bodies; unknown methods get 405. "
    "The path model's axioms are assumed and validated bounded by a native enumeration on a scratch tree."
)
DESIGN_REF = "DESIGN.md 6/C17, 11"
LEVEL_NOTE = "trusted: pyvc, z3, assumed POSIX path model without symlinks, analysis opens no request-named file; POST guard was repaired (fix: 2e70507)"
TECHNIQUE = "contract-based deductive verification with a ghost trace of file-system accesses over an axiomatised path model"
