from pyvc import framescan

PROPERTY = "C12"
LEVEL = "proof"
CONTRACT_MODULES = ["modeltypes", "config", "metadata", "runner"]
P = "sqllineage.core.metadata_provider."
FUNCTIONS = [
    P + "MetaDataProvider.__init__",
    P + "MetaDataProvider.register_session_metadata",
    P + "MetaDataProvider.deregister_session_metadata",
    P + "MetaDataProvider.session",
    P + "MetaDataSession.__init__",
    P + "MetaDataSession.__enter__",
    P + "MetaDataSession.__exit__",
    P + "MetaDataSession.register_session_metadata",
    "sqllineage.core.metadata.dummy.DummyMetaDataProvider.__init__",
    "sqllineage.core.metadata.dummy.DummyMetaDataProvider.__bool__",
    "sqllineage.core.parser.sqlfluff.analyzer.SqlFluffLineageAnalyzer.__init__",
    "sqllineage.runner.LineageRunner._eval",
]
SITE_CHECKS = [("package-wide frame scan (K2)", lambda repo: framescan.scan(repo, "C12"))]
EXPLANATION = (
    "LineageRunner._eval is executed symbolically from its real source with an exceptional edge out of EVERY call in the "
    "`with provider.session()` body (any statement index, any provider lookup, the final assembly): on every exit, normal "
    "or exceptional, the provider's session map is empty (cleanup at every crash point, all script lengths by loop "
    "invariant). The provider/session methods are verified against their contracts. The package-wide store scan (K2) shows "
    "that no function of the package writes module-level, class-level or default-argument state (allow-listed: CLI drawing "
    "entry point, import-time keyword patches), that the session map has exactly three writers and three callers, and "
    "that the per-run caches are created per instance in __init__."
)
TRUSTED = [
    "pyvc translator and its models (dict/list/set, networkx.DiGraph views used by holder accessors)",
    "z3",
    "ASSUMED contract: analyzer.analyze / split / split_tsql / SQLLineageHolder.of write nothing that outlives the call except fresh objects (repository side checked by the K2 scan; sqlfluff, sqlparse, networkx assumed free of result-affecting global state)",
    "ASSUMED contract: MetaDataProvider._get_table_columns (abstract hook) returns a list or raises anything",
    "interning assumption A_eq for model objects used as graph nodes",
]
ASSUMPTIONS = [
    "no subclass overrides session/deregister_session_metadata/register_session_metadata (true of the two bundled providers)",
    "history and thread lemmas (run B after any history H equals B fresh; concurrent runs with distinct providers do not interfere) follow from 'every run leaves every object that outlives it as it found it' by induction on |H| and from disjoint write sets; stated in DESIGN.md, not mechanised",
    "Python's warnings registry is excluded from the frame by name",
]
REPLAYERS = {("", ""): {"script": "replay/c12_native.py", "args": []}}
BOUNDED = [
    {
        "name": "C12 native crash-point enumeration on the real runner",
        "script": "replay/c12_native.py",
        "args_quick": ["--n", "2"],
        "args_thorough": ["--n", "3"],
        "bound": "scripts of 1..n statements over 4 statement shapes with an unsupported / unparsable statement at every position k and a provider that raises on its j-th lookup for every j <= 3; provider reused for a probe run afterwards and compared with a fresh provider",
    }
]
LEVEL_TEXT = (
    "Proof (z3) that LineageRunner._eval leaves the provider's session map empty on every exit edge (exception out of any "
    "call in the with-body, any statement count), that session objects clear unconditionally and do not swallow errors, and "
    "that per-run state is per instance; plus a package-wide syntactic frame scan (no module-level / class-level / "
    "default-argument channel). Histories and concurrent runs follow by induction from the per-run frame. A native "
    "crash-point enumeration on the real runner is a bounded cross-check only."
)
DESIGN_REF = "DESIGN.md 6/C12, 11"
LEVEL_NOTE = "trusted: pyvc translator/models, z3; assumed: analyze/split/of write only fresh objects (repository side by K2 scan), third-party libraries keep no result-affecting global state, no provider subclass overrides the session methods"
TECHNIQUE = "contract-based deductive verification (exceptional edges out of every call, loop invariant) + package-wide syntactic frame inference"
