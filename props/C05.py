PROPERTY = "C05"
LEVEL = "proof"
CONTRACT_MODULES = ["modeltypes", "config", "metadata", "runner"]
HELPERS = ["modeltypes", "config", "helpers"]
FUNCTIONS = [
    ("sqllineage.utils.helpers.split", HELPERS),
    ("sqllineage.core.parser.sqlfluff.analyzer.SqlFluffLineageAnalyzer.split_tsql", HELPERS),
    "sqllineage.runner.LineageRunner._eval",
    "sqllineage.runner.LineageRunner.statements",
]
EXPLANATION = (
    "helpers.split is proved, for an arbitrary sqlparse result P, to return exactly the kept pieces of P in order, nothing "
    "duplicated, nothing else (ghost count function: result[kept_count(i)] == P[i].value for every kept i, len(result) == "
    "kept_count(len P)); a piece is kept iff it has a first non-comment token and that token is not the punctuation ';'. "
    "split_tsql returns the text of every statement segment in order and caches exactly those. LineageRunner._eval takes the "
    "T-SQL branch iff the flag is on and the dialect is tsql, otherwise splits with helpers.split; it builds one holder per "
    "statement (loop invariant, any length); statements() is the comment-trimmed statement list in order. Where sqlparse puts "
    "statement boundaries (semicolons inside literals/comments) and how sqlfluff batches T-SQL are third-party behaviour: "
    "bounded native stand-in only."
)
TRUSTED = ["pyvc translator", "z3", "ASSUMED model of sqlparse.parse/token_first and of sqlfluff statement segments (functions of the text)", "analyze is a function of (text, dialect, config, provider): purity of sqlfluff/sqlparse"]
ASSUMPTIONS = [
    "statement segmentation itself (semicolons inside literals and comments do not split; a T-SQL batch parsed whole splits like its pieces parsed alone) is sqlparse's / sqlfluff's: bounded stand-in, not proved",
    "compositionality with a falsy provider: the only channel between statements is the session map, every read of which is behind the provider's truthiness test (K3 of C13) -- stated; the native run compares script lineage with SQLLineageHolder.of over single-statement runs",
]
REPLAYERS = {("", ""): {"script": "replay/c05_native.py", "args": ["--n", "2"]}}
BOUNDED = [
    {
        "name": "C05 native separator-variant enumeration on the real runner",
        "script": "replay/c05_native.py",
        "args_quick": ["--n", "2"],
        "args_thorough": ["--n", "2", "--thorough"],
        "bound": "scripts of 1-2 of 6 corpus statements (literal and comment containing ';') joined by 8 separator variants x leading/trailing blank, comment-only and ';'-only pieces (quick: 9 of 25 lead/trail combinations for single statements, 3 sampled variants per pair); T-SQL no-semicolon mode: 1-2 (thorough 1-4) of 4 statements x 4 separators",
    }
]
LEVEL_TEXT = (
    "Proof (z3) that helpers.split returns exactly the kept pieces of the parser's result in order, that split_tsql returns and "
    "caches exactly the statement segments' texts, that _eval selects the splitter as the statement says and builds one holder "
    "per statement for scripts of any length, and that statements() reports them trimmed in order; statement segmentation by "
    "sqlparse/sqlfluff is a bounded native stand-in (labelled bounded)."
)
DESIGN_REF = "DESIGN.md 6/C05, 11"
LEVEL_NOTE = "trusted: pyvc, z3, assumed sqlparse/sqlfluff models; segmentation of text into statements bounded only"
TECHNIQUE = "contract-based deductive verification (loop invariants with a ghost count function) + bounded native stand-in for third-party segmentation"
