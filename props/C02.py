PROPERTY = "C02"
LEVEL = "proof"
CONTRACT_MODULES = ["modeltypes", "config", "metadata", "holders", "scope"]
COLS = ["modeltypes", "config", "models", "columns"]
MC = "sqllineage.core.models.Column."
FUNCTIONS = ["sqllineage.core.holders.SubQueryLineageHolder.get_alias_mapping_from_table_group"] + [
    (MC + f, COLS) for f in ("__init__", "parent", "parent@setter", "parent_candidates", "to_source_columns")
] + [("sqllineage.core.holders.SubQueryLineageHolder." + f, ["modeltypes", "config", "metadata", "holders", "holders_c06"]) for f in ("_get_target_table", "get_source_columns")]
EXPLANATION = (
    "Exactness of single-statement column lineage is, for the most part, a statement about the meaning of SQL text as parsed "
    "by sqlfluff/sqlparse grammars, which no contract on the repository's code can express (same reason as C01). What the "
    "repository itself decides is SCOPE RESOLUTION, and that is put under contract: get_alias_mapping_from_table_group "
    "(the name -> relation map of one FROM scope) is verified for all graphs and table groups against: every name "
    "resolves to a relation OF THIS SCOPE (no leak from sibling scopes that share the holder graph); a name that is an "
    "alias of a relation of the scope resolves to a relation that carries it, and thereby shadows a bare table name of the "
    "same spelling (the repaired D8); a name that is no alias resolves to a Table of that bare or qualified name; every "
    "alias and every table name of the scope is a key. REFERENCE RESOLUTION against that map is under contract too: "
    "Column.to_source_columns is executed from its real source with its three loops cut by invariants / step contracts (set "
    "loops in adversarial order): every iteration of the reference loop keeps what was collected and, unless the reference is "
    "a wildcard, adds a new column carrying the referenced name; for a qualified reference whose qualifier is a key of the map "
    "the owner candidates of every new column are EXACTLY {map[qualifier]}; for an unknown qualifier they are new Table objects "
    "only (the fall-back, known finding D21 of C06); for an unqualified reference they are EXACTLY the relations in scope (the "
    "only relation, or unresolved with all candidates - never a guess); every iteration of the wildcard loop adds a column `*` "
    "owned by exactly the visited relation. Column.__init__ / parent / parent setter / parent_candidates (what 'owner' and "
    "'candidates' mean) carry their own contracts. The step contracts compose over the reference list by the usual induction "
    "(stated, not mechanised). The dataflow clauses (which columns an expression references, "
    "target naming, set-operation positions, unresolved references with candidates) are checked by the bounded native run "
    "against a construction-time oracle; they are not counted as proved."
)
TRUSTED = ["pyvc translator and its networkx model", "z3", "A_eq"]
ASSUMPTIONS = [
    "SourceHandlerMixin.end_of_query_cleanup (the caller that wires resolved references to target columns, per set-operation branch) is not under contract: covered by the bounded run only",
    "to_source_columns: set insertion of the new columns is modelled under A_eq (a new object is a new element); two references that print alike collapse into one element in CPython, which only removes duplicates",
    "expression traversal (extractors) is outside reach: bounded run only",
]
REPLAYERS = {("", ""): {"script": "replay/c02_native.py", "args": []}}
BOUNDED = [
    {
        "name": "C02 native generated-statement run",
        "script": "replay/c02_native.py",
        "args_quick": [],
        "args_thorough": ["--thorough"],
        "bound": "17 scope shapes (1-3 relations, aliases or none, derived table with/without inner alias, CTE, join with derived table) x 7 select-item kinds (column, alias, function, CASE, CAST, arithmetic, window) x {names, explicit column list} + unqualified references per shape + 6 set-operation groups (2-3 branches, same alias in sibling branches, explicit list) + 5 SELECT * statements (table, derived table, CTE, joins of them) x {ansi, non-validating}; oracle computed at construction",
    }
]
LEVEL_TEXT = (
    "Proof (z3) of the scope map's contract (resolution inside the scope, alias shadowing, completeness of keys) and of "
    "reference resolution against it (Column.to_source_columns: exact owner candidates per reference kind, step contracts "
    "under adversarial set order; Column owner bookkeeping). The "
    "dataflow clauses of C02 are a bounded native stand-in against a construction-time oracle. D8 repaired; D26 (sqlparse "
    "analyzer ignores an explicit column list) is an open known finding."
)
DESIGN_REF = "DESIGN.md 6/C02, 11"
LEVEL_NOTE = "partial: scope map and reference resolution are proved; dataflow clauses bounded only; D26 open"
TECHNIQUE = "contract-based deductive verification of scope resolution (alias map postcondition; loop step contracts and invariants of Column.to_source_columns) + bounded native generated-statement run with construction-time oracle"
