PROPERTY = "C02"
LEVEL = "proof"
CONTRACT_MODULES = ["modeltypes", "config", "metadata", "holders", "scope"]
FUNCTIONS = ["sqllineage.core.holders.SubQueryLineageHolder.get_alias_mapping_from_table_group"]
EXPLANATION = (
    "Exactness of single-statement column lineage is, for the most part, a statement about the meaning of SQL text as parsed "
    "by sqlfluff/sqlparse grammars, which no contract on the repository's code can express (same reason as C01). What the "
    "repository itself decides is SCOPE RESOLUTION, and that is put under contract: get_alias_mapping_from_table_group "
    "(the name -> relation map of one FROM scope) is verified for all graphs and table groups against: every name "
    "resolves to a relation OF THIS SCOPE (no leak from sibling scopes that share the holder graph); a name that is an "
    "alias of a relation of the scope resolves to a relation that carries it, and thereby shadows a bare table name of the "
    "same spelling (the repaired D8); a name that is no alias resolves to a Table of that bare or qualified name; every "
    "alias and every table name of the scope is a key. The dataflow clauses (which columns an expression references, "
    "target naming, set-operation positions, unresolved references with candidates) are checked by the bounded native run "
    "against a construction-time oracle; they are not counted as proved."
)
TRUSTED = ["pyvc translator and its networkx model", "z3", "A_eq"]
ASSUMPTIONS = [
    "Column.to_source_columns and SourceHandlerMixin.end_of_query_cleanup (the consumers of the map) are not under contract: nested loops over sets of freshly allocated columns compared by printed name; covered by the bounded run only",
    "expression traversal (extractors) is outside reach: bounded run only",
]
REPLAYERS = {("", ""): {"script": "replay/c02_native.py", "args": []}}
BOUNDED = [
    {
        "name": "C02 native generated-statement run",
        "script": "replay/c02_native.py",
        "args_quick": [],
        "args_thorough": ["--thorough"],
        "bound": "9 scope shapes (1-3 relations, aliases or none, derived table with/without inner alias, CTE, join with derived table) x 7 select-item kinds (column, alias, function, CASE, CAST, arithmetic, window) x {names, explicit column list} + unqualified references per shape + 6 set-operation groups (2-3 branches, same alias in sibling branches, explicit list) x {ansi, non-validating}; oracle computed at construction",
    }
]
LEVEL_TEXT = (
    "Proof (z3) of the scope map's contract (resolution inside the scope, alias shadowing, completeness of keys). The "
    "dataflow clauses of C02 are a bounded native stand-in against a construction-time oracle. D8 repaired; D26 (sqlparse "
    "analyzer ignores an explicit column list) is an open known finding."
)
DESIGN_REF = "DESIGN.md 6/C02, 11"
LEVEL_NOTE = "partial: only scope resolution is proved; dataflow clauses bounded only; D26 open"
TECHNIQUE = "contract-based deductive verification of scope resolution (alias map postcondition) + bounded native generated-statement run with construction-time oracle"
