from pyvc import sitescan

PROPERTY = "C10"
LEVEL = "proof"
CONTRACT_MODULES = ["modeltypes", "config", "metadata", "analyzer"]
FA = "sqllineage.core.parser.sqlfluff.analyzer.SqlFluffLineageAnalyzer."
FUNCTIONS = [FA + "_list_specific_statement_segment", FA + "analyze", ("sqllineage.utils.helpers.split", ["modeltypes", "config", "helpers"]), ("sqllineage.runner.LineageRunner._eval", ["modeltypes", "config", "metadata", "runner"])]
SITE_CHECKS = [("raise sites and extractor dispatch (K3)", lambda repo: sitescan.raise_sites(repo, "C10"))]


def _lemma_silent():
    import importlib

    return importlib.import_module("props.C03").lemma_empty_statement_is_identity()


LEMMAS = [("silent_mode: an empty statement holder is the identity of the script fold (C03 step contract)", _lemma_silent)]
EXPLANATION = (
    "PARTIAL. Proved on the real source: (1) _list_specific_statement_segment raises InvalidSyntaxException exactly when the "
    "parser reports a lex, parse or templating violation -- before any extractor runs -- and otherwise indexes only statement "
    "segments that have a child (shape assumption G5 as precondition); (2) analyze raises nothing but the library's "
    "UnsupportedStatementException (only when there is no segment or silent mode is off) and whatever the parser / an extractor "
    "raises: every partial operation of its own body (statement_segments[0], the cache lookup, the for-else) is shown not to "
    "raise; (3) helpers.split is exact; (4) site obligations: every `raise` of the package raises a SQLLineageException "
    "subclass (7 abstract NotImplementedError stubs assumed unreachable), the extractors' SUPPORTED_STMT_TYPES are pairwise "
    "disjoint; (4b) LineageRunner._eval marks the runner evaluated only on normal exit and leaves the flag untouched on EVERY "
    "exceptional edge, so an accessor used after a failed run evaluates again and raises the same library exception instead "
    "of reaching its body without a result; (5) lemma: an empty holder is the identity of the statement fold (silent mode). NOT decided: that the "
    "extractors (code over third-party parse trees) and sqlfluff/sqlparse themselves never raise internal errors -- the "
    "extractors' `extract` is an ASSUMED contract; the bounded native fuzz stand-in covers it, labelled bounded."
)
TRUSTED = ["pyvc translator", "z3", "ASSUMED opaque model of sqlfluff Linter / ParsedString / BaseSegment.get_children", "ASSUMED contracts of every extractor's extract() (returns a holder or raises something)"]
ASSUMPTIONS = [
    "G5: a `statement` segment has at least one child (monitored by the native corpus run)",
    "internal-error freedom of the nine extractors, of _build_digraph's resolution phase and of sqlfluff/sqlparse on arbitrary text: NOT proved; bounded native fuzz only",
    "NotImplementedError stubs are unreachable because only overriding subclasses are instantiated",
]
REPLAYERS = {("", ""): {"script": "replay/c10_native.py", "args": ["--n", "150"]}}
BOUNDED = [
    {
        "name": "C10 native token-mutation fuzz and silent-mode positions on the real runner",
        "script": "replay/c10_native.py",
        "args_quick": ["--n", "150"],
        "args_thorough": ["--n", "4000"],
        "bound": "12 corpus statements x 8 dialects; 150 (thorough 4000) seeded token deletion/duplication/swap/insertion mutants x 5 dialects; an unsupported statement at each of 4 positions of a 3-statement script in silent and normal mode; 5 statement-less texts (GO, template-only, '/') x silent/normal",
    }
]
LEVEL_TEXT = (
    "Partial proof (z3): the analyzer-level exception contract (invalid syntax reported before any extractor runs, including "
    "templating failures after the repair; analyze's own body free of internal errors; unsupported statements), exact "
    "splitting, raise-site and dispatch-disjointness scans, silent-mode identity lemma. Totality of the extractors and of the "
    "third-party parsers is not decided by contracts: bounded native fuzz stand-in, labelled bounded."
)
DESIGN_REF = "DESIGN.md 6/C10, 11"
LEVEL_NOTE = "trusted: pyvc, z3, opaque sqlfluff model, ASSUMED extractor contracts; repaired escapes: D3, D4, D5, D18 (fix commits)"
TECHNIQUE = "contract-based deductive verification of the analyzer's exception contract + raise-site scan + bounded native fuzz stand-in"
