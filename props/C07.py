from pyvc import sitescan

PROPERTY = "C07"
LEVEL = "proof"
CONTRACT_MODULES = ["modeltypes", "config", "fluffutils"]
U = "sqllineage.core.parser.sqlfluff.utils."
FUNCTIONS = [
    (U + "is_negligible", ["modeltypes", "config", "fluffutils_neg"]),
    U + "list_child_segments",
    ("sqllineage.utils.helpers.escape_identifier_name", ["modeltypes", "config", "models"]),
    ("sqllineage.utils.helpers.split", ["modeltypes", "config", "helpers"]),
]
SITE_CHECKS = [("keyword and positional discipline of the parser packages (K3)", lambda repo: sitescan.layout_discipline(repo, "C07"))]
EXPLANATION = (
    "Under the assumption A_fluff (sqlfluff parses a layout / comment / case rewrite of a text to the same tree up to inserted "
    "whitespace, newline, comment and meta segments and the letter case of raw text) invariance follows if every extractor is "
    "insensitive to exactly those differences. The in-repo mechanisms are under contract: (1) is_negligible is true of "
    "whitespace (incl. line breaks), of comments OF EVERY KIND and of meta segments, false of code and of the star; (2) "
    "list_child_segments (plain branch) returns only children, never a layout child, and every code child (filtered-list "
    "reasoning for all child sequences), so inserting layout children anywhere changes nothing; (3) escape_identifier_name "
    "folds unquoted names to lower case and strips quotes without folding (so an already lower-case name is the same quoted "
    "or not); (4) split() drops every piece whose first non-comment token is a lone semicolon (extra trailing semicolons, "
    "with or without comments, add no statement - C05's exact kept-subsequence contract). K3 scans: every comparison of "
    "source text with a letter-bearing literal goes through raw_upper / normalized (17 sites proved), every constant "
    "subscript on a raw `.segments` sequence is an enumerated site with a stated shape assumption (9 sites assumed; a new "
    "one fails). NOT decided by proof: A_fluff itself, the sqlparse analyzer's trimming, the bracketed branch of "
    "list_child_segments: bounded native rewrite run."
)
TRUSTED = ["pyvc translator", "z3", "A_fluff (sqlfluff's lexer/parser treat layout as negligible segments)", "sqlparse model of helpers.py (C05)"]
ASSUMPTIONS = [
    "9 raw positional sites are assumed with shape assumptions G5-G7 (listed per site in the evidence)",
    "list_child_segments is verified for the non-bracketed branch; the bracketed branch and every extractor are covered by the bounded run only",
    "display names of un-aliased expression columns are compared modulo layout and case (the property allows them to follow the text)",
]
REPLAYERS = {("", ""): {"script": "replay/c07_native.py", "args": []}}
BOUNDED = [
    {
        "name": "C07 native rewrite run",
        "script": "replay/c07_native.py",
        "args_quick": [],
        "args_thorough": ["--thorough"],
        "bound": "quick: every 5th harvested test SQL with its dialect + 30 generated statements x 14 whole-text rewrites (other whitespace, line breaks, block / line comments at every boundary, keyword case x3, identifier case, quoting of lower-case identifiers for ansi, 5 trailing-semicolon forms) + 3 seeded single boundaries x 3 rewrites; thorough: whole harvested corpus + 10 TPC-DS queries + all generated statements, up to 12 evenly spaced single boundaries per input x 3 rewrites",
    }
]
LEVEL_TEXT = (
    "Proof (z3) of the four in-repo layout mechanisms (negligibility, child filtering, identifier folding, semicolon-only "
    "pieces) + K3 keyword / positional discipline scans; end-to-end invariance is a bounded native rewrite run under A_fluff."
)
DESIGN_REF = "DESIGN.md 6/C07, 11"
LEVEL_NOTE = "partial: in-repo mechanisms proved; parse invariance (A_fluff) assumed and monitored by the bounded run"
TECHNIQUE = "contract-based deductive verification (negligibility / child-filter / folding / split contracts) + keyword and positional site scans + bounded native metamorphic rewrite run"
