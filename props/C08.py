PROPERTY = "C08"
LEVEL = "proof"
CONTRACT_MODULES = ["modeltypes", "config", "metadata", "holders", "scope"]
M = "sqllineage.core.models."
MODELS = ["modeltypes", "config", "models"]
FUNCTIONS = ["sqllineage.core.holders.SubQueryLineageHolder.get_alias_mapping_from_table_group"] + [
    (M + c + m, MODELS) for c in ("Column.", "SubQuery.", "Table.") for m in ("__eq__", "__hash__")
] + [(M + "Column." + f, MODELS + ["columns"]) for f in ("parent", "parent@setter", "to_source_columns")] + [
    # every relation that is read records its alias (an un-aliased table its own name), which is what lets the alias win
    ("sqllineage.core.holders.SubQueryLineageHolder.add_read", ["modeltypes", "config", "metadata", "holders", "holders_c06"])
]
EXPLANATION = (
    "Invariance under renaming of statement-local names needs (a) that a local name is looked up only in its own scope and "
    "(b) that the identity of graph nodes does not depend on local names in a way that merges distinct things. (a) is the "
    "contract of get_alias_mapping_from_table_group (shared with C02): for ALL graphs and table groups every name of the "
    "map resolves to a relation of that scope, an alias resolves to a relation carrying it (so the spelling of the alias is "
    "irrelevant as long as it is consistent) and shadows table names. (b) Column.__eq__ compares printed name AND owner; "
    "SubQuery identity is its query text, not its alias; Table identity is its qualified name: verified eq/hash contracts, "
    "so two different derived tables that happen to share an alias stay different nodes and their same-named columns stay "
    "different columns. NOT decided by proof: that the extractors bind and use aliases consistently - bounded native run "
    "with adversarial renamings."
)
TRUSTED = ["pyvc translator", "z3", "A_eq"]
ASSUMPTIONS = ["window items with ORDER BY ... DESC in multi-relation scopes are skipped under non-validating (known finding D33 of C02)", "extractor side of alias handling (add_read with alias, CTE look-up, sub-query column tracing) is covered by the bounded run only"]
REPLAYERS = {("", ""): {"script": "replay/c08_native.py", "args": []}}
BOUNDED = [
    {
        "name": "C08 native renaming run",
        "script": "replay/c08_native.py",
        "args_quick": [],
        "args_thorough": ["--thorough"],
        "bound": "generated statements (8 scope shapes x 3 item kinds quick, 9 x 8 thorough) x every injective renaming of their local names (a seeded sample of 40 per statement when there are more) from a pool containing another table's bare name, a differently-cased table name and a mixed-case name (thorough: keyword-like names, target and schema names) x {AS, no AS} + alias removed; 4 sibling/nested-scope templates x 12 outer x 16 inner name choices incl. equal names in sibling scopes and inner == outer; both analyzers; oracle computed at construction; + 3 twin-table templates (same bare name in two schemas, qualifier with / without alias) x 12 name pairs; + 2 UPDATE ... FROM templates x 5 inner alias spellings (ansi)",
    }
]
LEVEL_TEXT = (
    "Proof (z3) of scope-local name resolution (scope map; Column.to_source_columns resolves a qualifier only through that map, so a consistent renaming of a local name cannot change the owner) and of node identity (eq/hash) being independent of aliases; the end-to-end "
    "invariance under renamings is a bounded native stand-in against a construction-time oracle."
)
DESIGN_REF = "DESIGN.md 6/C08, 11"
LEVEL_NOTE = "partial: scope map, reference resolution and node identity proved; extractor alias handling bounded only"
TECHNIQUE = "contract-based deductive verification (scope map postcondition, step contracts of Column.to_source_columns, eq/hash contracts) + bounded native metamorphic renaming run with construction-time oracle"
