from pyvc import sitescan

PROPERTY = "C11"
LEVEL = "proof"
CONTRACT_MODULES = ["modeltypes", "config", "metadata", "holders", "runner"]
H = "sqllineage.core.holders.SQLLineageHolder."
R = "sqllineage.runner.LineageRunner."
LEM = ["modeltypes", "config", "metadata", "holders", "lemmas_c11"]
FUNCTIONS = [
    H + "source_tables", H + "target_tables", H + "intermediate_tables",
    R + "source_tables", R + "target_tables", R + "intermediate_tables", R + "statements",
    ("sqllineage.runner.LineageRunner._eval", ["modeltypes", "config", "metadata", "runner"]),
    ("verif_ghost.c11.statements_twice", LEM),
    ("verif_ghost.c11.sources_after_targets", LEM),
    "sqllineage.core.holders.SQLLineageHolder._build_digraph",
    ("sqllineage.core.holders.ColumnLineageMixin.get_column_lineage", ["modeltypes", "config", "metadata", "holders", "holders_c06"]),
    # the candidate owners of an unresolved column are listed in an order that is a function of the SET (sorted by printed name)
    ("sqllineage.core.models.Column.parent_candidates", ["modeltypes", "config", "models", "columns"]),
]
SITE_CHECKS = [("pick sites: no result depends on which element a set hands out first (K3)", lambda repo: sitescan.pick_sites(repo, "C11"))]
EXPLANATION = (
    "Hash-seed dependence can only enter through the iteration order of sets (and dict/graph views built from them). "
    "(1) Every loop over an unordered collection inside a function under contract is verified with the ADVERSARIAL-ORDER loop "
    "rule (an arbitrary not-yet-visited element is processed next), so each proved postcondition holds for every iteration "
    "order: _build_digraph's table view is a function of the statement holders (C03's step contract, incl. the repaired, "
    "position-ordered RENAME), the role sets are set comprehensions, the public lists are `sorted(set, key=str)` with str "
    "injective on equal-by-name tables. (2) K3: every `pick` of one element of a set (next(iter(X)), list(X)[0], X.pop()) is a "
    "site obligation |X| <= 1 (2 guarded, 6 on the single write target of a statement carried as documented assumption). "
    "(3) Purity: holder/runner accessors have an empty frame (frame obligations incl. in-place `|=` through aliases); lemma "
    "clients over the contracts show that repeated / reordered accessor calls give the same answers and evaluate once. "
    "NOT decided by proof: order-independence of the column-level code (expand_wildcard, to_source_columns, resolution phase); "
    "the native seed run (bounded) covers it (D12, found there, is repaired)."
)
TRUSTED = ["pyvc translator (set iteration = adversarial order)", "z3", "sqlfluff / sqlparse / networkx deterministic given their inputs", "A_eq"]
ASSUMPTIONS = [
    "anonymous subquery names (hash of text) are excluded by the property itself",
    "the export is compared as a set of node records and a set of (source, target) edge records (positional edge ids follow graph insertion order)",
    "column-level order independence: bounded native seed run only (4 seeds quick, 32 thorough)",
    "one write target per statement at the 6 assumed pick sites",
]
REPLAYERS = {("", ""): {"script": "replay/c11_native.py", "args": []}}
BOUNDED = [
    {
        "name": "C11 native hash-seed and accessor-order run",
        "script": "replay/c11_native.py",
        "args_quick": ["--seeds", "4"],
        "args_thorough": ["--seeds", "32"],
        "bound": "12 scripts (write-only statement, names differing only in letter case, chains, self loop, diamond paths, metadata-positional INSERT, wildcard with metadata incl. the repaired D12 join, multi-pair RENAME, CTEs) x PYTHONHASHSEED in 0..3 (thorough 0..31), canonical dump of every public accessor; all 6 orders of the table accessors + 4 mixed/repeated orders on one runner; + both path flags (exclude_subquery_columns, exclude_path_ending_in_subquery) in 7 call orders on one runner, incl. 2 scripts with a path ending in a sub-query",
    }
]
LEVEL_TEXT = (
    "Proof (z3) of order-independence of the table-level assembly by the adversarial-order loop rule, of the sorted public "
    "lists, of accessor purity (frames) and of repeated/reordered accessor calls (lemma clients over contracts); K3 pick-site "
    "discipline by scan. Column-level order independence and process-level seeds are a bounded native stand-in; D12 "
    "was repaired."
)
DESIGN_REF = "DESIGN.md 6/C11, 11"
LEVEL_NOTE = "trusted: pyvc (adversarial set order), z3, deterministic third-party libraries; column-level code bounded only; D5, D12, D16 repaired"
TECHNIQUE = "contract-based deductive verification with adversarial-order loop rule + purity frames + pick-site scan + bounded native seed run"
