from pyvc import sitescan

PROPERTY = "C14"
LEVEL = "proof"
CONTRACT_MODULES = ["modeltypes", "config", "models"]
M = "sqllineage.core.models."
FUNCTIONS = [M + "Schema.__init__", M + "Schema.__bool__", M + "Schema.__str__", M + "Table.__init__", M + "Table.__str__", M + "Schema.__eq__", M + "Schema.__hash__", M + "Table.__eq__", M + "Table.__hash__", "sqllineage.utils.helpers.escape_identifier_name", "sqllineage.config._SQLLineageConfigLoader.__getattr__"]
SITE_CHECKS = [("construction sites and call-time defaults (K3)", lambda repo: sitescan.call_time_defaults(repo, "C14"))]
EXPLANATION = (
    "Schema.__init__ is proved to implement the fallback chain of the statement (explicit name, else the default schema AS "
    "THE CONFIGURATION READS AT THE TIME OF THE CALL for the calling thread -- through C15's contract of the read --, else the "
    "placeholder), each normalised the same way; Table.__init__ is proved to take an explicitly passed schema as is, to build "
    "the default per call when the schema is omitted (the repaired import-time default, fix 9f19822), and to ignore the schema "
    "argument for an already qualified name, splitting it at its last dot. Equality/hash by printed name make `S.n` written "
    "out and `n` under default S the same entity. Site obligations: no model/holder constructor has a default argument "
    "evaluated at import; every Table-family construction passes a Schema built in the same activation or omits it. The read "
    "of the configured default itself (_SQLLineageConfigLoader.__getattr__: the calling thread's scoped override wins, else the "
    "environment variable, else the built-in default - so both mechanisms of the statement behave as one chain) is verified "
    "here too, not only assumed from C15."
)
TRUSTED = ["pyvc translator", "z3", "uninterpreted str.lower/strip (same normaliser applied on both sides of the equivalence)"]
ASSUMPTIONS = [
    "which references an extractor turns into tables, and that it hands the unqualified/qualified name text to SqlFluffTable.of / SqlParseTable.of, is extraction code and not decided",
    "equivalence lemma (script under default S == script with S.name written out) is the composition of the proved constructor contracts with equality-by-printed-name; stated, not mechanised as one formula",
]
REPLAYERS = {("", ""): {"script": "replay/c14_native.py", "args": []}}
BOUNDED = [
    {
        "name": "C14 native equivalence check (default schema by environment / scoped override vs textual qualification)",
        "script": "replay/c14_native.py",
        "args": [],
        "bound": "9 scripts x default in {unset, fresh lower-case name, mixed-case name, name already used as qualifier} x {environment variable, scoped override, scoped override while the environment variable names another schema} x {ansi, non-validating, vertica special path}",
    }
]
LEVEL_TEXT = (
    "Proof (z3) on the real source that the schema fallback chain reads the configuration at call time and normalises every "
    "link alike, that Table() takes/builds/ignores the schema exactly as the statement says (per-call default after the "
    "repair), with site obligations for every construction site and every default argument of the model layer; a native "
    "equivalence run over both mechanisms is a bounded cross-check."
)
DESIGN_REF = "DESIGN.md 6/C14, 11"
LEVEL_NOTE = "trusted: pyvc, z3, C15's read contract; extraction of references from SQL text not decided; import-time default repaired (fix 9f19822)"
TECHNIQUE = "contract-based deductive verification of the constructors + construction-site discipline scan"
