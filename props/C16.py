from pyvc import sitescan

PROPERTY = "C16"
LEVEL = "proof"
CONTRACT_MODULES = ["modeltypes", "config", "models"]
M = "sqllineage.core.models."
FUNCTIONS = (
    ["sqllineage.utils.helpers.escape_identifier_name", M + "Schema.__init__", M + "Schema.__str__", M + "Table.__init__", M + "Table.__str__", M + "Path.__init__", M + "SubQuery.__init__"]
    + [M + c + "." + f for c in ("Schema", "Table", "Path", "SubQuery", "Column") for f in ("__eq__", "__hash__")]
)
SITE_CHECKS = [("exactly-once normalisation (K3 typestate raw/normalised)", lambda repo: sitescan.exactly_once(repo, "C16"))]
EXPLANATION = (
    "The model layer is executed symbolically from its real source: escape_identifier_name against its three-case contract "
    "(fold / brackets / quotes), the constructors of Schema, Table (last-dot split, at most two qualifier parts, alias), Path, "
    "SubQuery, and __eq__/__hash__ of every model class (equal iff same class and same printed qualified name -- Column: and "
    "same owner; hash a function of the printed name, hence equal entities hash equally). str.lower and str.strip are "
    "UNINTERPRETED in these proofs: what the three cases MEAN on strings (quotes stripped, case kept; folding is case-"
    "insensitive) is decided only by the bounded native stand-in (exhaustive strings over a 10-symbol alphabet) and is not "
    "counted as proved. Exactly-once normalisation is a site discipline: every call of the normaliser / a model constructor in "
    "the package is an obligation (found by scan on every run); the 14 violating sites of the unchanged tree are known "
    "findings D13.*, any new site is a violation."
)
TRUSTED = ["pyvc translator", "z3", "str.lower / str.strip / str.rsplit as uninterpreted or axiomatised built-ins (rsplit(sep,1): split at the last occurrence)", "C15 contract of the configuration read"]
ASSUMPTIONS = [
    "string-level meaning of the three normalisation cases: bounded only (all strings of length <= 4 quick / 6 thorough over ` \" ' [ ] . A b _ 1)",
    "which raw text an extractor hands to the model layer (segment.raw of which segment) is extraction code and not decided",
    "hash() of str is an uninterpreted function (equal strings, equal hashes)",
]
REPLAYERS = {("", ""): {"script": "replay/c16_native.py", "args": ["--len", "4"]}}
BOUNDED = [
    {
        "name": "C16 native string/model stand-in (real escape_identifier_name and model classes vs executable contract clauses; end-to-end spelling chains)",
        "script": "replay/c16_native.py",
        "args_quick": ["--len", "4"],
        "args_thorough": ["--len", "6"],
        "bound": "every string of length <= 4 (thorough 6) over the 10-symbol alphabet ` \" ' [ ] . A b _ 1; 15x15 cross-class equality/hash matrix; 10 spelling pairs x dialects through LineageRunner; three-part names with 1-3 quoted parts x 3 quote styles; quoted mixed-case aliases (table, derived table, join, CTE reference) used as qualifiers x 3 quote styles",
    }
]
LEVEL_TEXT = (
    "Proof (z3) of the model layer's contracts on the real source (three-case normaliser over uninterpreted lower/strip, "
    "constructors, last-dot split and part limit, equality/hash by printed qualified name) and a K3 site discipline for "
    "exactly-once normalisation with the 14 known violating sites listed as findings; the string-level meaning of strip/lower "
    "is a bounded native stand-in, labelled bounded and not counted as proved."
)
DESIGN_REF = "DESIGN.md 6/C16, 11"
LEVEL_NOTE = "trusted: pyvc, z3, uninterpreted lower/strip (bounded-validated), rsplit axiom; D13.1-14 open known findings (double normalisation sites)"
TECHNIQUE = "contract-based deductive verification of the model layer + syntactic typestate scan of every normalisation site + bounded native string stand-in"
