import z3

PROPERTY = "C03"
LEVEL = "proof"
CONTRACT_MODULES = ["modeltypes", "config", "metadata", "holders", "runner"]
H = "sqllineage.core.holders.SQLLineageHolder."
R = "sqllineage.runner.LineageRunner."
FUNCTIONS = [H + "_build_digraph", H + "__init__", H + "source_tables", H + "target_tables", H + "intermediate_tables", R + "source_tables", R + "target_tables", R + "intermediate_tables"]


def _tv():
    N = z3.DeclareSort("Tbl")
    S = z3.ArraySort(N, z3.BoolSort())
    E = z3.ArraySort(N, N, z3.BoolSort())
    return N, S, E


def _step(N, v, st):
    """stepSpec of a plain statement on the table view (nodes, edges, source_only, target_only); st = (read, write)"""
    nodes, edges, so, to = v
    r, w = st
    x, y = z3.Consts("x y", N)
    w_empty = z3.Not(z3.Exists([x], w[x]))
    r_empty = z3.Not(z3.Exists([x], r[x]))
    return (
        z3.Lambda([x], z3.Or(nodes[x], r[x], w[x])),
        z3.Lambda([x, y], z3.Or(edges[x, y], z3.And(r[x], w[y]))),
        z3.Lambda([x], z3.Or(so[x], z3.And(r[x], w_empty))),
        z3.Lambda([x], z3.Or(to[x], z3.And(w[x], r_empty))),
    )


def _eqv(N, a, b):
    x, y = z3.Consts("ex ey", N)
    return z3.And(z3.ForAll([x], a[0][x] == b[0][x]), z3.ForAll([x, y], a[1][x, y] == b[1][x, y]), z3.ForAll([x], a[2][x] == b[2][x]), z3.ForAll([x], a[3][x] == b[3][x]))


def lemma_commutes():
    N, S, E = _tv()
    v = (z3.Const("n", S), z3.Const("e", E), z3.Const("so", S), z3.Const("to", S))
    a = (z3.Const("ra", S), z3.Const("wa", S))
    b = (z3.Const("rb", S), z3.Const("wb", S))
    return _eqv(N, _step(N, _step(N, v, a), b), _step(N, _step(N, v, b), a))


def lemma_idempotent():
    N, S, E = _tv()
    v = (z3.Const("n", S), z3.Const("e", E), z3.Const("so", S), z3.Const("to", S))
    a = (z3.Const("ra", S), z3.Const("wa", S))
    return _eqv(N, _step(N, _step(N, v, a), a), _step(N, v, a))


def lemma_empty_statement_is_identity():
    N, S, E = _tv()
    v = (z3.Const("n", S), z3.Const("e", E), z3.Const("so", S), z3.Const("to", S))
    none = z3.K(N, z3.BoolVal(False))
    return _eqv(N, _step(N, v, (none, none)), v)


LEMMAS = [
    ("plain_steps_commute (order independence without DROP/RENAME)", lemma_commutes),
    ("plain_step_idempotent (repeating a statement changes nothing)", lemma_idempotent),
    ("empty_statement_is_identity (a skipped statement leaves the summary unchanged)", lemma_empty_statement_is_identity),
]
EXPLANATION = (
    "SQLLineageHolder._build_digraph is executed symbolically from its real source for an arbitrary number of statement "
    "holders: ONE arbitrary iteration of the statement loop is verified against the step contract (plain: an edge r->w among "
    "datasets exactly when the statement reads r and writes w, source_only/target_only tags; DROP: only dropped tables "
    "without any incident edge leave, nothing else is disturbed; single-pair RENAME: x leaves, y takes its place, every "
    "other table untouched), the inner loops are cut by invariants (drop, read x write product; set iteration order is "
    "adversarial) or unrolled exactly under a proved cardinality bound (rename); self-loop tagging and the TV-frame of the "
    "column-resolution phase are proved; role predicates and the sorted runner views are proved against the property's own "
    "wording; commutativity/idempotence of the plain step are SMT lemmas over the spec."
)
TRUSTED = [
    "pyvc translator; assumed model of networkx.DiGraph (add/remove/compose/relabel/degree/subgraph/set_node_attributes/selfloop_edges), validated bounded against the real library by the native history cross-check",
    "z3",
    "interning assumption A_eq: node identity in graphs is z3 equality (model objects' __eq__/__hash__ are C16's obligations)",
    "statement holders satisfy the representation invariant WF_H (typed edges, no summary tags) -- required here, established by the holder mutators (C06)",
]
ASSUMPTIONS = [
    "the per-statement read/write/drop/rename sets are what the SQL means (C01, not applicable)",
    "closed form over histories (edge r->w iff SOME statement reads r and writes w) follows from the proved step contract by induction on the number of statements; order independence for arbitrary permutations follows from the commutation lemma by adjacent transpositions (stated, not mechanised)",
    "RENAME statements with several pairs are outside the step contract's precondition (order dependent: reported under C10/C11)",
    "RENAME x TO y is exact when y is new and x carries no self loop; otherwise only 'x leaves, others untouched' is claimed",
]
REPLAYERS = {("", ""): {"script": "replay/c03_native.py", "args": ["--n", "3"]}}
BOUNDED = [
    {
        "name": "C03 native history cross-check (real SQLLineageHolder.of vs executable step contract)",
        "script": "replay/c03_native.py",
        "args_quick": ["--n", "2"],
        "args_thorough": ["--n", "3"],
        "bound": "every history of <= 2 (thorough: 3, i.e. the 68 921 three-statement histories) abstract statements over 3 tables: 32 read-set x at-most-one-write shapes, DROP t, RENAME x TO y",
    }
]
LEVEL_TEXT = (
    "Proof (z3) of the per-statement step contract of the real _build_digraph loop body (plain / DROP / single-pair RENAME), "
    "of the inner-loop invariants under adversarial set order, of self-loop tagging, of the table-view frame of the "
    "resolution phase, of the role predicates and of the sorted public views; lemmas: plain steps commute and are "
    "idempotent. The closed form over whole histories is the usual induction (stated). Native enumeration of all short "
    "histories is a bounded cross-check of contract and networkx model."
)
DESIGN_REF = "DESIGN.md 6/C03, 11"
LEVEL_NOTE = "trusted: pyvc, z3, assumed networkx model (bounded-validated), A_eq, WF_H of statement holders; multi-pair RENAME outside the contract"
TECHNIQUE = "contract-based deductive verification: loop step contract + invariants over a graph model, SMT lemmas over the spec"
