"""Contracts on sqllineage/drawing.py (C17) + the assumed contracts of what the WSGI app calls."""
import ast

import z3

from pyvc import path_model as PM
from pyvc import sorts as S
from pyvc.sorts import V
from pyvc.spec import Contract
from pyvc.state import And, Not, Or, OutsideSubset, Raised
from pyvc.values import SV, SV_NONE, TAny, TDict, TStr, sv_bool, sv_dict, sv_int, sv_str, sv_v

APP = "sqllineage.drawing.SQLLineageApp."
R = "sqllineage.runner.LineageRunner."
FIELDS = {("SQLLineageApp", "root_path"): "PosixPath", ("SQLLineageApp", "metadata_provider"): "MetaDataProvider"}

STATUS = {"OK": (200, "OK"), "BAD_REQUEST": (400, "Bad Request"), "FORBIDDEN": (403, "Forbidden"), "NOT_FOUND": (404, "Not Found"), "METHOD_NOT_ALLOWED": (405, "Method Not Allowed")}
json_dumps = z3.Function("json_dumps", V, S.Str)
json_loads_dom = z3.Function("json_loads_dom", S.Str, S.SetS)
json_loads_map = z3.Function("json_loads_map", S.Str, S.MapS)


def routes_of(repo):
    """route path -> FuncInfo, read from the @app.route("...") decorators in the source"""
    m = repo.modules["sqllineage.drawing"]
    out = {}
    for fi in m.funcs.values():
        for d in fi.node.decorator_list:
            if isinstance(d, ast.Call) and isinstance(d.func, ast.Attribute) and d.func.attr == "route" and d.args and isinstance(d.args[0], ast.Constant):
                out[d.args[0].value] = fi
    return out


def install(engine):
    routes = routes_of(engine.repo)

    # ---- self.routes : the dict filled by the decorators at import ---------------------------------------------------
    def routes_hook(engine, st, o):
        def contains(engine, st, x):
            s = engine.as_str(x)
            yield st, Or(*[s == z3.StringVal(k) for k in sorted(routes)])

        def getitem(engine, st, k):
            s = engine.as_str(k)

            def dispatch(engine, st, args, kwargs, node):
                rest = st
                for key in sorted(routes):
                    nxt = None
                    for st1, hit in engine.fork(rest, s == z3.StringVal(key)):
                        if hit:
                            yield from engine.call_repo(routes[key], args, kwargs, st1, node)
                        else:
                            nxt = st1
                    if nxt is None:
                        return
                    rest = nxt
                yield rest, Raised("KeyError", where="routes[]")

            yield st, SV("func", ("py", dispatch))

        yield st, SV("view", {"name": "routes", "contains": contains, "getitem": getitem})

    engine.field_hooks[("SQLLineageApp", "routes")] = routes_hook

    # ---- http.HTTPStatus ------------------------------------------------------------------------------------------------
    def status_const(name):
        return lambda e: SV("httpstatus", STATUS[name])

    engine.opaque_classes["HTTPStatus"] = {"class_attrs": {k: status_const(k) for k in STATUS}}
    orig_attr = engine.path_attr

    def attr_hook(engine, st, o, attr):
        return orig_attr(engine, st, o, attr)

    # ---- json / mimetypes / Namespace / start_response ------------------------------------------------------------------------
    def x_json_loads(engine, st, args, kwargs, node):
        a = args[0]
        s = engine.as_str(a) if a.kind in ("str",) else z3.Function("bytes_text", V, S.Str)(a.t)
        if not (engine.spec_ctx or engine.spec_depth):
            yield st, Raised("ValueError", where="json.loads")
        yield st, sv_dict(json_loads_dom(s), json_loads_map(s), TStr, TAny)

    def x_json_dumps(engine, st, args, kwargs, node):
        st, b = engine.boxed(st, args[0])
        yield st, sv_str(json_dumps(b))

    def x_guess_type(engine, st, args, kwargs, node):
        f, sv = engine.fresh_of_type("Optional[str]", "mimetype")
        from pyvc.values import sv_tuple

        yield st.with_facts(f), sv_tuple([sv, SV_NONE])

    def x_namespace(engine, st, args, kwargs, node):
        d = kwargs.get("**")
        if d is None or args:
            raise OutsideSubset("Namespace(...) form")
        yield st, SV("namespace", d)

    def ns_getattr(engine, st, o, attr, default):
        d = o.t
        key = V.str_(z3.StringVal(attr))
        for st1, has in engine.fork(st, d.t[0][key]):
            if has:
                yield st1, sv_v(d.t[1][key], TAny)
            elif default is not None:
                yield st1, default
            else:
                yield st1, Raised("AttributeError", where=f"Namespace.{attr}")

    engine.ns_getattr = ns_getattr

    def call_of_value(engine, st, args, kwargs, node):
        # start_response(status, headers): recorded; environ["wsgi.input"].read is handled as an opaque method below
        f = args[0]
        if len(args) >= 2 and args[1].kind == "str":
            lst = list(st.ghost.get("responses", ()))
            lst.append(args[1].t)
            st = st.with_ghost("responses", tuple(lst))
        yield st, SV_NONE

    url_unquote = z3.Function("url_unquote", S.Str, S.Str)

    def x_unquote(engine, st, args, kwargs, node):
        # percent-decoding: SOME text determined by the argument; nothing relates its '..' parts to those of the argument
        yield st, sv_str(url_unquote(engine.as_str(args[0])))

    engine.ext_models["urllib.parse.unquote"] = x_unquote
    engine.ext_models["<call-of-value>"] = call_of_value
    engine.ext_models["json.loads"] = x_json_loads
    engine.ext_models["json.dumps"] = x_json_dumps
    engine.ext_models["mimetypes.guess_type"] = x_guess_type
    engine.ext_models["argparse.Namespace"] = x_namespace

    # ---- spec functions ----------------------------------------------------------------------------------------------------
    def f_opened_inside(engine, st, args, kwargs):
        """every file opened / directory listed so far lies inside one of the given roots"""
        roots = []
        for a in args:
            st, r = PM.as_path_str(engine, st, a)
            roots.append(r)
        cs = []
        for what, p in st.ghost.get("opened", ()):
            cs.append(Or(*[PM.inside(p, r) for r in roots]))
        # R2: a directory is inside itself
        yield st.with_facts([PM.inside(r, r) for r in roots]), sv_bool(And(*cs))

    def f_opened_only(engine, st, args, kwargs):
        """every file opened / directory listed so far is exactly the given path"""
        st, r = PM.as_path_str(engine, st, args[0])
        yield st, sv_bool(And(*[p == r for what, p in st.ghost.get("opened", ())]))

    def f_nothing_opened(engine, st, args, kwargs):
        yield st, sv_bool(z3.BoolVal(len(st.ghost.get("opened", ())) == 0))

    def f_response_status(engine, st, args, kwargs):
        rs = st.ghost.get("responses", ())
        if not rs:
            yield st, sv_str("")
        else:
            yield st, sv_str(rs[-1])

    def f_no_dotdot(engine, st, args, kwargs):
        st, p = PM.as_path_str(engine, st, args[0])
        yield st, sv_bool(Not(PM.has_dd(p)))

    def f_constant_error_body(engine, st, args, kwargs):
        """result == [json.dumps({"message": <msg>}).encode()] for the given constant message"""
        res, msg = args
        d = sv_dict(z3.Store(S.EMPTY_SET, V.str_(z3.StringVal("message")), z3.BoolVal(True)), z3.Store(S.NONE_MAP, V.str_(z3.StringVal("message")), V.str_(engine.as_str(msg))), TStr, TStr)
        st, b = engine.boxed(st, d)
        want = z3.Function("encode_utf8", S.Str, V)(json_dumps(b))
        if res.kind != "list":
            yield st, sv_bool(False)
            return
        yield st, sv_bool(And(res.t[0] == 1, res.t[1][0] == want))

    engine.spec_funcs.update({"opened_inside": f_opened_inside, "nothing_opened": f_nothing_opened, "opened_only": f_opened_only, "response_status": f_response_status, "no_dotdot": f_no_dotdot, "constant_error_body": f_constant_error_body})


STATIC = "Path(os.path.dirname(__file__)).joinpath(Path(STATIC_FOLDER))"
OPAQUE_RUNNER = dict(assume_only=True, raises={"*": {"when": None}}, modifies=[], notes="ASSUMED for C17: the analysis opens no file named by the request (sqlfluff reads its own configuration files)")
DISCLOSURE = {
    "get_touches_only_the_static_folder": "implies(environ['REQUEST_METHOD'] == 'GET', opened_inside(static))",
    "post_touches_only_the_sql_root": "implies(environ['REQUEST_METHOD'] == 'POST', opened_inside(self.root_path))",
    "other_methods_touch_nothing": "implies(environ['REQUEST_METHOD'] != 'GET' and environ['REQUEST_METHOD'] != 'POST', nothing_opened())",
}

CONTRACTS = [
    Contract(R + "__init__", props=["C17"], **dict(OPAQUE_RUNNER, modifies=["self._sql", "self._file_path", "self._verbose", "self._draw_options", "self._evaluated", "self._stmt", "self._dialect", "self._metadata_provider", "self._silent_mode"])),
    Contract(R + "__str__", props=["C17"], returns="str", **OPAQUE_RUNNER),
    Contract(R + "to_cytoscape", props=["C17"], returns="list[Any]", **OPAQUE_RUNNER),
    Contract(
        "sqllineage.drawing.lineage",
        props=["C17"],
        params={"payload": "dict[str, Any]"},
        ensures={"reads_only_the_file_named_by_f": "implies('f' in payload and isinstance(payload['f'], str), opened_only(payload['f'])) and implies('f' not in payload, nothing_opened())"},
        raises={"*": {"when": None, "ensures": {"reads_only_the_file_named_by_f": "implies('f' in payload and isinstance(payload['f'], str), opened_only(payload['f'])) and implies('f' not in payload, nothing_opened())"}, "no_frame": True}},
        modifies=["*"],
        at_calls=False,
        notes="handler-level contract: with the route-independent guard of __call__ (proved in the POST_script/POST_directory cases: a request whose f is outside the root never reaches a handler) this gives the /lineage disclosure clause modularly",
    ),
] + [
    Contract(
        APP + "__call__#" + case,
        props=["C17"],
        params={"environ": "dict[str, Any]", "start_response": "Callable"},
        lets={"static": STATIC},
        requires=dict(
            {
                "install_path_has_no_dotdot_part": "no_dotdot(static)",
                "the_wsgi_callable_is_the_module_level_app": "self is app",
                "method_and_path_are_text": "isinstance(environ['REQUEST_METHOD'], str) and isinstance(environ['PATH_INFO'], str)",
            },
            **{"case_" + case: cond},
        ),
        ensures=dict(
            DISCLOSURE,
            **{
                "refusals_have_constant_bodies": "implies(response_status() == '403 Forbidden', constant_error_body(result, 'File Not Allowed For Accessing')) and implies(response_status() == '404 Not Found', constant_error_body(result, 'File Not Found')) and implies(response_status() == '405 Method Not Allowed', constant_error_body(result, 'Method Not Allowed'))",
                "unknown_methods_get_405": "implies(environ['REQUEST_METHOD'] not in ('GET', 'POST', 'OPTIONS'), response_status() == '405 Method Not Allowed')",
            },
        ),
        raises={"*": {"when": None, "ensures": DISCLOSURE, "no_frame": True}},
        modifies=["*"],
        at_calls=False,
        canary={"never_answers": "False"},
    )
    for case, cond in {
        "GET": "environ['REQUEST_METHOD'] == 'GET'",
        "POST_script": "environ['REQUEST_METHOD'] == 'POST' and environ['PATH_INFO'] == '/script'",
        "POST_directory": "environ['REQUEST_METHOD'] == 'POST' and environ['PATH_INFO'] == '/directory'",
        "POST_lineage": "environ['REQUEST_METHOD'] == 'POST' and environ['PATH_INFO'] == '/lineage'",
        "POST_other": "environ['REQUEST_METHOD'] == 'POST' and environ['PATH_INFO'] not in ('/script', '/directory', '/lineage')",
        "other_methods": "environ['REQUEST_METHOD'] != 'GET' and environ['REQUEST_METHOD'] != 'POST'",
    }.items()
]
