"""C02 / C08: scope resolution - the alias map of a FROM scope and the resolution of one column reference against it."""
from pyvc.engine import LoopSpec
from pyvc.spec import Contract

SQ = "sqllineage.core.holders.SubQueryLineageHolder."
M = "sqllineage.core.models."
G = "self.graph"
ALIAS_OF = lambda r, k: f"(gedge({G}, {r}, {k}) and getype({G}, {r}, {k}) == 'has_alias')"

CONTRACTS = [
    Contract(
        SQ + "get_alias_mapping_from_table_group",
        props=["C02", "C08"],
        params={"table_group": "list[Union[Path, Table, SubQuery]]"},
        returns="dict[str, Union[Path, Table, SubQuery]]",
        # "nothing else is a key" follows from the first three clauses (every key has the witness result[k] in the scope)
        ensures={
            "every_name_resolves_to_a_relation_of_this_scope": "forall(lambda k: implies(k in result, result[k] in table_group), k='str')",
            "an_alias_resolves_to_a_relation_that_carries_it_and_shadows_table_names": f"forall(lambda k: implies(k in result and exists(lambda r: r in table_group and {ALIAS_OF('r', 'k')}), {ALIAS_OF('result[k]', 'k')}), k='str')",
            "a_name_that_is_no_alias_resolves_to_a_table_of_that_name": f"forall(lambda k: implies(k in result and not exists(lambda r: r in table_group and {ALIAS_OF('r', 'k')}), isinstance(result[k], Table) and (result[k].raw_name == k or str(result[k]) == k)), k='str')",
            "every_alias_of_the_scope_is_a_key": f"forall(lambda r, k: implies(r in table_group and {ALIAS_OF('r', 'k')}, k in result), k='str')",
            "every_table_of_the_scope_is_a_key_by_bare_name": "forall(lambda j: implies(0 <= j and j < len(table_group) and isinstance(table_group[j], Table), table_group[j].raw_name in result), j='int')",
            "every_table_of_the_scope_is_a_key_by_qualified_name": "forall(lambda j: implies(0 <= j and j < len(table_group) and isinstance(table_group[j], Table), str(table_group[j]) in result), j='int')",
        },
        modifies=[],
        at_calls=False,
        canary={"never_returns": "False"},
    ),
]
