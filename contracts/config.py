"""Contracts on sqllineage/config.py (property C15).

State: cfg = self._thread_config : tid -> (key -> value);  ctx = self._thread_in_context_manager : set of tid.
`tid` is threading.get_ident() of the executing thread (constant during one activation).
Observable: the *override part* of a read, ov(t, K) := cfg.get(t, {}).get(K); a read returns ov(tid, K) when it is
not None and otherwise parse_value(environment-or-default) which does not depend on the object's state.
"""
from pyvc.engine import LoopSpec
from pyvc.spec import Contract

M = "sqllineage.config._SQLLineageConfigLoader."
OV = "self._thread_config.get(tid, {}).get(K)"
# GUARANTEE of every simple statement (prev() = the state just before the statement): no other thread's slot / mark changes
OTHERS_CFG = "forall(lambda u: implies(u != tid, (u in self._thread_config) == prev(u in self._thread_config) and self._thread_config.get(u) == prev(self._thread_config.get(u))), u='int')"
OTHERS_CTX = "forall(lambda u: implies(u != tid, (u in self._thread_in_context_manager) == prev(u in self._thread_in_context_manager)), u='int')"
STABLE = {"others_cfg": OTHERS_CFG, "others_ctx": OTHERS_CTX}
# RELY: between any two statements other threads may do anything to THEIR slots; ours is left alone (their guarantee)
INTERFERE = ["self._thread_config", "self._thread_in_context_manager"]
RELY = {
    "own_cfg_slot": "(tid in self._thread_config) == prev(tid in self._thread_config) and self._thread_config.get(tid) == prev(self._thread_config.get(tid))",
    "own_ctx_mark": "(tid in self._thread_in_context_manager) == prev(tid in self._thread_in_context_manager)",
}
RG = dict(stable=STABLE, interfere=INTERFERE, rely=RELY)
OWN_CTX_SAME = "(tid in self._thread_in_context_manager) == old(tid in self._thread_in_context_manager)"
OWN_CFG_SAME = "(tid in self._thread_config) == old(tid in self._thread_config) and self._thread_config.get(tid) == old(self._thread_config.get(tid))"
FIELDS = {
    ("_SQLLineageConfigLoader", "_thread_config"): "dict[int, dict[str, Any]]",
    ("_SQLLineageConfigLoader", "_thread_in_context_manager"): "set[int]",
}

CONTRACTS = [
    Contract(
        M + "parse_value",
        props=["C15"],
        pure_function=True,
        requires={"cast_is_a_config_type": "cast is bool or cast is str"},
        ensures={
            "bool_key_gives_bool": "implies(cast is bool, isinstance(result, bool))",
            "str_key_gives_str": "implies(cast is str, isinstance(result, str))",
        },
        raises={"*": {"when": None}},
        modifies=[],
        notes="values are coerced to the key's type; may raise on values that cannot be coerced (e.g. int(None))",
    ),
    Contract(
        M + "get_ident",
        props=["C15"],
        at_calls=False,
        ensures={"is_current_thread": "result == tid"},
        lets={"tid": "threading.get_ident()"},
        modifies=[],
    ),
    Contract(
        M + "__getattr__",
        props=["C15", "C14"],
        lets={"tid": "self.get_ident()"},
        requires={"config_key": "item in self.config"},
        ensures={
            "override_wins": "implies(old(self._thread_config.get(tid, {}).get(item)) is not None, result == old(self._thread_config.get(tid, {}).get(item)))",
            "else_environment_or_default": "implies(old(self._thread_config.get(tid, {}).get(item)) is None, result == old(self.parse_value(os.environ.get('SQLLINEAGE_' + item, self.config[item][1]), self.config[item][0])))",
        },
        raises={"*": {"when": "old(self._thread_config.get(tid, {}).get(item)) is None", "ensures": {}}},
        modifies=[],
        **RG,
        canary={"result_is_none": "result is None"},
    ),
    Contract(
        M + "__setattr__",
        props=["C15"],
        lets={"tid": "self.get_ident()"},
        raises={"ConfigException": {"when": "key in self.config", "exact": True, "ensures": {"nothing_changes": OWN_CFG_SAME + " and " + OWN_CTX_SAME}}},
        ensures={"only_non_config_names": "key not in self.config"},
        modifies=["self._thread_config", "self._thread_in_context_manager"],
        at_calls=False,
    ),
    Contract(
        M + "__call__",
        props=["C15"],
        params={"kwargs": "dict[str, Any]", "args": "list[Any]"},
        lets={"tid": "self.get_ident()"},
        raises={
            "ConfigException": {
                "when": "exists(lambda k: k in kwargs and k not in self.config, k='str') or tid in old(self._thread_in_context_manager)",
                "ensures": {
                    "rejected_is_noop": f"forall(lambda K: {OV} == old({OV}), K='str')",
                    "ctx_same": OWN_CTX_SAME,
                },
            },
            "*": {
                "when": None,
                "ensures": {
                    "failed_is_noop": f"forall(lambda K: {OV} == old({OV}), K='str')",
                    "ctx_same": OWN_CTX_SAME,
                },
            },
        },
        ensures={
            "no_unknown_key": "forall(lambda k: implies(k in kwargs, k in self.config), k='str')",
            "not_nested": "tid not in old(self._thread_in_context_manager)",
            "returns_self": "result is self",
            "stored": f"forall(lambda K: implies(K in kwargs, {OV} == old(self.parse_value(kwargs[K], self.config[K][0]))), K='str')",
            "kept": f"forall(lambda K: implies(K not in kwargs, {OV} == old({OV})), K='str')",
            "ctx_same": OWN_CTX_SAME,
        },
        modifies=["self._thread_config"],
        returns="_SQLLineageConfigLoader",
        **RG,
        loops={
            0: LoopSpec(
                inv={
                    "nothing_stored_yet": OWN_CFG_SAME,
                    "own_scope_mark_kept": OWN_CTX_SAME,
                    "done_valid": "forall(lambda K: implies(K in _done, K in self.config), K='str')",
                    "parsed_is_done": "forall(lambda K: (K in parsed) == (K in _done), K='str')",
                    "parsed_values": "forall(lambda K: implies(K in _done, parsed[K] == old(self.parse_value(kwargs[K], self.config[K][0]))), K='str')",
                },
                modifies=[],
            )
        },
        canary={"never_returns": "False"},
    ),
    Contract(
        M + "__enter__",
        props=["C15"],
        lets={"tid": "self.get_ident()"},
        raises={
            "ConfigException": {
                "when": "tid in old(self._thread_in_context_manager)",
                "exact": True,
                "ensures": {"rejected_is_noop": OWN_CFG_SAME + " and " + OWN_CTX_SAME},
            }
        },
        ensures={
            "marks_scope": "tid in self._thread_in_context_manager",
            "cfg_same": OWN_CFG_SAME,
        },
        modifies=["self._thread_in_context_manager"],
        **RG,
        canary={"already_inside": "tid in old(self._thread_in_context_manager)"},
    ),
    Contract(
        M + "__exit__",
        props=["C15"],
        lets={"tid": "self.get_ident()"},
        ensures={
            "overrides_cleared": "tid not in self._thread_config",
            "scope_closed": "tid not in self._thread_in_context_manager",
            "does_not_swallow": "not result",
        },
        modifies=["self._thread_config", "self._thread_in_context_manager"],
        **RG,
        canary={"scope_still_open": "tid in self._thread_in_context_manager"},
    ),
]
