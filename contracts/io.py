"""Contracts on sqllineage/io.py (C18)."""
from pyvc.spec import Contract

NN = "len(graph.nodes)"
CONTRACTS = [
    Contract(
        "sqllineage.io.to_cytoscape",
        props=["C18"],
        params={"graph": "DiGraph", "compound": "bool"},
        requires={
            "edges_connect_nodes": "forall(lambda u, v: implies(gedge(graph, u, v), gnode(graph, u) and gnode(graph, v)))",
            "table_level_export": "compound is False",
            "nodes_are_datasets": "forall(lambda n: implies(gnode(graph, n), ds(n)))",
        },
        ensures={
            "one_record_per_node_and_per_edge": f"len(result) == {NN} + len(graph.edges)",
            "node_records_are_exactly_the_tables": f"forall(lambda j: implies(0 <= j and j < {NN}, result[j]['data']['id'] == str(list(graph.nodes)[j])), j='int')",
            "edge_records_are_exactly_the_edges": f"forall(lambda j: implies(0 <= j and j < len(graph.edges), (result[{NN} + j]['data']['source'], result[{NN} + j]['data']['target']) == [(str(u), str(v)) for u, v in graph.edges][j]), j='int')",
            "every_edge_endpoint_is_an_exported_node_id": "forall(lambda u, v: implies(gedge(graph, u, v), result[list(graph.nodes).index(u)]['data']['id'] == str(u) and result[list(graph.nodes).index(v)]['data']['id'] == str(v)))",
        },
        modifies=[],
        at_calls=False,
        canary={"always_empty": "len(result) == 0"},
    ),
]
