"""Contracts of the C15 lemma clients (contracts/ghost/c15.py)."""
from pyvc.spec import Contract

G = "verif_ghost.c15."
CLEAN = "tid not in cfg._thread_in_context_manager and tid not in cfg._thread_config"
ENVDEF = "cfg.parse_value(os.environ.get('SQLLINEAGE_' + K, cfg.config[K][1]), cfg.config[K][0])"
INTERFERE = ["cfg._thread_config", "cfg._thread_in_context_manager"]
RELY = {
    "own_cfg_slot": "(tid in cfg._thread_config) == prev(tid in cfg._thread_config) and cfg._thread_config.get(tid) == prev(cfg._thread_config.get(tid))",
    "own_ctx_mark": "(tid in cfg._thread_in_context_manager) == prev(tid in cfg._thread_in_context_manager)",
}
COMMON = dict(props=["C15"], at_calls=False, interfere=INTERFERE, rely=RELY, lets={"tid": "cfg.get_ident()"}, params={"kw": "dict[str, Any]", "kw1": "dict[str, Any]", "kw2": "dict[str, Any]"})
VALID = lambda d: f"forall(lambda k: implies(k in {d}, k in cfg.config), k='str')"
ANY_RAISE_CLEAN = {"*": {"when": None, "ensures": {"scope_left_clean": CLEAN}, "no_frame": True}}
MOD = ["cfg._thread_config", "cfg._thread_in_context_manager"]

CONTRACTS = [
    Contract(
        G + "scope_roundtrip",
        requires={"key": "K in cfg.config", "outside": CLEAN, "valid": VALID("kw")},
        ensures={
            "override_visible_inside": "implies(K in kw and old(cfg.parse_value(kw[K], cfg.config[K][0])) is not None, result[0] == old(cfg.parse_value(kw[K], cfg.config[K][0])))",
            "environment_or_default_after": f"result[1] == old({ENVDEF})",
            "scope_left_clean": CLEAN,
        },
        raises=ANY_RAISE_CLEAN,
        modifies=MOD,
        canary={"unreachable": "False"},
        **COMMON,
    ),
    Contract(
        G + "scope_exception",
        requires={"key": "K in cfg.config", "outside": CLEAN, "valid": VALID("kw")},
        ensures={"environment_or_default_after": f"result == old({ENVDEF})", "scope_left_clean": CLEAN},
        raises=ANY_RAISE_CLEAN,
        modifies=MOD,
        canary={"unreachable": "False"},
        **COMMON,
    ),
    Contract(
        G + "rejected_nested",
        requires={"key": "K in cfg.config", "outside": CLEAN, "valid": VALID("kw1")},
        ensures={"rejected_nested_scope_is_noop": "result[0] == result[1]", "scope_left_clean": CLEAN},
        raises=ANY_RAISE_CLEAN,
        modifies=MOD,
        canary={"unreachable": "False"},
        **COMMON,
    ),
    Contract(
        G + "rejected_unknown_key",
        requires={"key": "K in cfg.config", "unknown_key": "exists(lambda k: k in kw and k not in cfg.config, k='str')"},
        ensures={
            "rejected_override_is_noop": "result[0] == result[1]",
            "ctx_same": "(tid in cfg._thread_in_context_manager) == old(tid in cfg._thread_in_context_manager)",
        },
        raises={"*": {"when": None, "no_frame": True}},
        modifies=MOD,
        canary={"unreachable": "False"},
        **COMMON,
    ),
]
