"""C13 at statement level: wildcard expansion never touches the table view, whatever the provider answers."""
from pyvc.engine import LoopSpec
from pyvc.spec import Contract

SQ = "sqllineage.core.holders.SubQueryLineageHolder."
G = "self.graph"
TV = lambda now, before: (
    f"forall(lambda n: implies(ds(n), gnode({now}, n) == gnode({before}, n)))"
    f" and forall(lambda u, v: implies(ds(u) and ds(v), gedge({now}, u, v) == gedge({before}, u, v)))"
    f" and forall(lambda n: implies(ds(n), gtag({now}, n, 'source_only') == gtag({before}, n, 'source_only') and gtag({now}, n, 'target_only') == gtag({before}, n, 'target_only') and gtag({now}, n, 'selfloop') == gtag({before}, n, 'selfloop')))"
)
OWNERS_IN = lambda g: f"forall(lambda j, p: implies(0 <= j and j < len(src_table_columns) and p in src_table_columns[j]._parent, gnode({g}, p)), j='int')"
FRESH_COLUMN_FIELDS = ["fresh._parent", "fresh.raw_name", "fresh.source_columns", "fresh.from_alias"]

CONTRACTS = [
    Contract(
        SQ + "_replace_wildcard",
        props=["C13"],
        params={"tgt_table": "Union[Table, SubQuery]", "src_table_columns": "list[Column]", "tgt_wildcard": "Column", "src_wildcard": "Column", "target_columns": "list[Column]"},
        requires={
            "target_is_in_the_graph": f"gnode({G}, tgt_table)",
            "owners_of_the_given_columns_are_in_the_graph": OWNERS_IN(G),
        },
        ensures={"table_view_untouched_whatever_columns_are_given": TV(G, f"old({G})")},
        raises={"*": {"when": None, "ensures": {"table_view_untouched_whatever_columns_are_given": TV(G, f"old({G})")}}},
        modifies=["self.graph"] + FRESH_COLUMN_FIELDS,
        loops={
            0: LoopSpec(
                inv={
                    "table_view_untouched": TV(G, f"pre_loop({G})"),
                    "target_still_in_the_graph": f"gnode({G}, tgt_table)",
                    "owners_still_in_the_graph": OWNERS_IN(G),
                },
                modifies=["self.graph"] + FRESH_COLUMN_FIELDS,
                allocates=True,
            )
        },
        canary={"never_returns": "False"},
        at_calls=False,
    ),
]
