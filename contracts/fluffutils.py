"""C07: list_child_segments (is_negligible is executed from its source inside the comprehension)."""
from pyvc.spec import Contract

U = "sqllineage.core.parser.sqlfluff.utils."

CONTRACTS = [
    Contract(
        U + "list_child_segments",
        props=["C07"],
        params={"segment": "BaseSegment", "check_bracketed": "bool"},
        requires={"plain_branch": "not (segment.type == 'bracketed' and check_bracketed)"},
        returns="list[BaseSegment]",
        ensures={
            "layout_children_are_never_returned": "forall(lambda j: implies(0 <= j and j < len(result), not result[j].is_whitespace and not result[j].is_comment and not bool(result[j].is_meta)), j='int')",
            "only_children_are_returned": "forall(lambda j: implies(0 <= j and j < len(result), result[j] in segment.segments), j='int')",
            "every_code_child_is_returned": "forall(lambda i: implies(0 <= i and i < len(segment.segments) and not is_negligible(segment.segments[i]), segment.segments[i] in result), i='int')",
        },
        modifies=[],
        at_calls=False,
    ),
]
