"""Contracts on sqllineage/utils/helpers.py split/trim_comment and the T-SQL splitter (C05), with the assumed model of sqlparse."""
import z3

from pyvc import sorts as S
from pyvc.engine import LoopSpec
from pyvc.sorts import V
from pyvc.spec import Contract
from pyvc.state import Raised
from pyvc.values import SV, SV_NONE, TAny, TList, TObj, sv_list, sv_v

sp_len = z3.Function("sqlparse_parse_len", S.Str, S.Int)
sp_arr = z3.Function("sqlparse_parse_arr", S.Str, S.SeqS)
tok_first = z3.Function("sqlparse_token_first_skip_cm", V, V)
PUNCT = V.obj(z3.IntVal(-9001))


def install(engine):
    def x_parse(engine, st, args, kwargs, node):
        s = engine.as_str(args[0])
        n = sp_len(s)
        i = S.fresh("i", S.Int)
        facts = [n >= 0, z3.ForAll([i], z3.Implies(z3.And(0 <= i, i < n), z3.And(V.is_obj(sp_arr(s)[i]), S.cls_of(V.oid(sp_arr(s)[i])) == __import__("pyvc.values", fromlist=["class_id"]).class_id("SqlparseStatement"))))]
        if not (engine.spec_ctx or engine.spec_depth):
            yield st, Raised("<unknown>", where="sqlparse.parse")
        yield st.with_facts(facts), sv_list(n, sp_arr(s), TObj("SqlparseStatement"))

    def m_token_first(engine, st, recv, args, kwargs, node):
        # only the form token_first(skip_cm=True) is modelled: a function of the statement
        yield st, sv_v(tok_first(recv.t), TAny if False else __import__("pyvc.values", fromlist=["parse_type"]).parse_type("Optional[SqlparseToken]"))

    kept_count = z3.Function("kept_count", S.Str, S.Int, S.Int)

    def f_kept_count(engine, st, args, kwargs):
        from pyvc.values import sv_int

        yield st, sv_int(kept_count(engine.as_str(args[0]), engine.as_int(args[1])))

    engine.spec_funcs["kept_count"] = f_kept_count
    engine.ext_models["sqlparse.parse"] = x_parse
    engine.opaque_classes["SqlparseStatement"] = {"fields": {"value": "str"}, "methods": {"token_first": m_token_first}}
    engine.opaque_classes["SqlparseToken"] = {"fields": {"ttype": "Any", "value": "str", "normalized": "str"}, "methods": {}}
    engine.ext_consts["sqlparse.tokens.Punctuation"] = lambda e: sv_v(PUNCT, TAny)


KEEP = "(lambda s: bool(s.token_first(skip_cm=True)) and not (s.token_first(skip_cm=True).ttype == Punctuation and s.token_first(skip_cm=True).value == ';'))"
P = "sqlparse.parse(sql)"
FA = "sqllineage.core.parser.sqlfluff.analyzer.SqlFluffLineageAnalyzer."

CONTRACTS = [
    Contract(
        "sqllineage.utils.helpers.split",
        props=["C05", "C10", "C07"],
        requires={
            # definition of the ghost function kept_count(sql, i) = number of kept pieces among the first i (a conservative extension)
            "ghost_kept_count_base": "kept_count(sql, 0) == 0",
            "ghost_kept_count_step": f"forall(lambda i: implies(0 <= i and i < len({P}), kept_count(sql, i + 1) == kept_count(sql, i) + (1 if {KEEP}({P}[i]) else 0)), i='int')",
            "ghost_kept_count_monotone": "forall(lambda i, k: implies(0 <= i and i <= k, kept_count(sql, i) <= kept_count(sql, k)), i='int', k='int')",
        },
        ensures={
            "as_many_pieces_as_kept_statements": f"len(result) == kept_count(sql, len({P}))",
            "the_kept_statements_in_order_nothing_else": f"forall(lambda i: implies(0 <= i and i < len({P}) and {KEEP}({P}[i]), result[kept_count(sql, i)] == {P}[i].value), i='int')",
        },
        raises={"*": {"when": None}},
        modifies=[],
        at_calls=False,
        loops={
            0: LoopSpec(
                inv={
                    "count": "len(result) == kept_count(sql, _i)",
                    "kept_in_order": f"forall(lambda i: implies(0 <= i and i < _i and {KEEP}({P}[i]), result[kept_count(sql, i)] == {P}[i].value), i='int')",
                }
            )
        },
        canary={"always_empty": "len(result) == 0"},
    ),
    Contract(
        FA + "_list_specific_statement_segment",
        props=["C05", "C10"],
        assume_only=True,
        pure_function=True,
        returns="list[BaseSegment]",
        raises={"*": {"when": None}},
        modifies=[],
        notes="for split_tsql: the statement segments sqlfluff finds in the text, in order (its exception contract is C10's)",
    ),
    Contract(
        FA + "split_tsql",
        props=["C05"],
        lets={"SEGS": "self._list_specific_statement_segment(sql)"},
        ensures={
            "one_text_per_statement_segment_in_order": "len(result) == len(SEGS) and forall(lambda j: implies(0 <= j and j < len(SEGS), result[j] == SEGS[j].raw), j='int')",
            "every_piece_is_cached_with_a_segment_of_that_text": "forall(lambda j: implies(0 <= j and j < len(SEGS), SEGS[j].raw in self.tsql_split_cache and self.tsql_split_cache[SEGS[j].raw].raw == SEGS[j].raw), j='int')",
        },
        raises={"*": {"when": None}},
        modifies=["self.tsql_split_cache"],
        at_calls=False,
        loops={
            0: LoopSpec(
                inv={
                    "texts_so_far": "len(sqls) == _i and forall(lambda j: implies(0 <= j and j < _i, sqls[j] == SEGS[j].raw), j='int')",
                    "cached_so_far": "forall(lambda j: implies(0 <= j and j < _i, SEGS[j].raw in self.tsql_split_cache and self.tsql_split_cache[SEGS[j].raw].raw == SEGS[j].raw), j='int')",
                },
                modifies=["self.tsql_split_cache"],
            )
        },
    ),
]
FIELDS = {("BaseSegment", "raw"): "str", ("BaseSegment", "type"): "str"}
