"""io.to_cytoscape as seen by its callers: a pure function of (graph, compound) -- its own contract is in contracts/io.py."""
from pyvc.spec import Contract

CONTRACTS = [
    Contract(
        "sqllineage.io.to_cytoscape",
        props=["C18"],
        assume_only=True,
        pure_function=True,
        params={"graph": "DiGraph", "compound": "bool"},
        returns="list[Any]",
        modifies=[],
        notes="modular use by LineageRunner.to_cytoscape and drawing.lineage",
    ),
]
