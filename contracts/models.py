"""Contracts on sqllineage/core/models.py and utils/helpers.escape_identifier_name (C14, C16; used by C02/C04/C06)."""
from pyvc.spec import Contract

M = "sqllineage.core.models."
ESC = "sqllineage.utils.helpers.escape_identifier_name"
QUOTES = "('`' in name or '\"' in name or \"'\" in name)"
EQ_HASH = lambda cls, key: [
    Contract(
        M + cls + ".__eq__",
        props=["C16", "C06", "C08"],
        params={"other": "Any"},
        ensures={"equal_iff_same_class_and_same_printed_name": f"result == (isinstance(other, {cls}) and {key('self')} == {key('other')})"},
        modifies=[],
        at_calls=False,
    ),
    Contract(
        M + cls + ".__hash__",
        props=["C16", "C06", "C08"],
        ensures={"hash_is_a_function_of_the_printed_name": f"result == hash({key('self')})"},
        modifies=[],
        at_calls=False,
    ),
]

CONTRACTS = (
    [
        Contract(
            ESC,
            props=["C16", "C07", "C14"],
            pure_function=True,
            returns="str",
            ensures={
                "unquoted_identifiers_fold_to_lower_case": f"implies(not {QUOTES} and not (name.startswith('[') and name.endswith(']')), result == name.lower())",
                "bracketed_identifiers_lose_only_the_brackets": f"implies(not {QUOTES} and name.startswith('[') and name.endswith(']'), result == name.strip('[]'))",
                "quoted_identifiers_are_stripped_not_folded": f"implies({QUOTES}, result == name.strip('`').strip('\"').strip(\"'\"))",
            },
            modifies=[],
            canary={"always_empty": "result == ''"},
        ),
        Contract(
            M + "Schema.__init__",
            props=["C14", "C16"],
            params={"name": "Optional[str]"},
            ensures={
                "explicit_name_wins": "implies(bool(name), self.raw_name == escape_identifier_name(name))",
                "else_the_default_schema_configured_at_call_time": "implies(not name and bool(SQLLineageConfig.DEFAULT_SCHEMA), self.raw_name == escape_identifier_name(SQLLineageConfig.DEFAULT_SCHEMA))",
                "else_the_placeholder": "implies(not name and not SQLLineageConfig.DEFAULT_SCHEMA, self.raw_name == escape_identifier_name('<default>'))",
            },
            raises={"*": {"when": "not name"}},
            modifies=["self.raw_name"],
            at_calls=False,
        ),
        Contract(M + "Schema.__str__", props=["C16"], ensures={"printed_name": "result == self.raw_name"}, modifies=[], at_calls=False),
        Contract(M + "Schema.__bool__", props=["C14"], ensures={"false_only_for_the_placeholder": "result == (self.raw_name != '<default>')"}, modifies=[], at_calls=False),
        Contract(
            M + "Table.__init__",
            props=["C14", "C16"],
            params={"schema": "Optional[Schema]", "kwargs": "dict[str, Any]"},
            requires={"alias_is_text_if_given": "implies('alias' in kwargs, isinstance(kwargs['alias'], str))"},
            ensures={
                "undotted_name_takes_the_given_schema": "implies('.' not in name and schema is not None, self.schema is schema)",
                "omitted_schema_is_the_default_at_call_time": "implies('.' not in name and schema is None, is_fresh(self.schema) and (lambda s: implies(bool(SQLLineageConfig.DEFAULT_SCHEMA), s == escape_identifier_name(SQLLineageConfig.DEFAULT_SCHEMA)) and implies(not SQLLineageConfig.DEFAULT_SCHEMA, s == escape_identifier_name('<default>')))(self.schema.raw_name))",
                "undotted_name_is_normalised": "implies('.' not in name, self.raw_name == escape_identifier_name(name))",
                "dotted_name_splits_at_its_last_dot": "implies('.' in name, self.raw_name == escape_identifier_name(name.rsplit('.', 1)[1]) and '.' not in name.rsplit('.', 1)[1] and implies(name.rsplit('.', 1)[0] != '', self.schema.raw_name == escape_identifier_name(name.rsplit('.', 1)[0])))",
                "qualified_names_ignore_the_schema_argument": "implies('.' in name, is_fresh(self.schema))",
                "alias_defaults_to_the_name": "implies('alias' not in kwargs, self.alias == escape_identifier_name(self.raw_name))",
            },
            raises={
                "SQLLineageException": {"when": "'.' in name and len(name.rsplit('.', 1)[0].split('.')) > 2", "exact": True},
                "*": {"when": None},
            },
            modifies=["self.schema", "self.raw_name", "self.alias", "fresh.raw_name"],
            at_calls=False,
            canary={"never_constructs": "False"},
        ),
        Contract(M + "Table.__str__", props=["C16"], ensures={"printed_name_is_schema_dot_name": "result == str(self.schema) + '.' + self.raw_name"}, modifies=[], at_calls=False),
        Contract(M + "Path.__init__", props=["C16"], ensures={"uri_is_normalised": "self.uri == escape_identifier_name(uri)"}, modifies=["self.uri"], at_calls=False),
        Contract(
            M + "SubQuery.__init__",
            props=["C16", "C08"],
            params={"subquery": "Any", "alias": "Optional[str]"},
            ensures={
                "identity_is_the_text": "self.query_raw == subquery_raw",
                "given_alias_is_normalised": "implies(alias is not None, self.alias == escape_identifier_name(alias))",
                "generated_name_is_a_function_of_the_text": "implies(alias is None, self.alias == 'subquery_' + str(hash(subquery_raw)))",
            },
            modifies=["self.query", "self.query_raw", "self.alias"],
            at_calls=False,
        ),
    ]
    + EQ_HASH("Schema", lambda x: f"str({x})")
    + EQ_HASH("Table", lambda x: f"str({x})")
    + EQ_HASH("Path", lambda x: f"{x}.uri")
    + EQ_HASH("SubQuery", lambda x: f"{x}.query_raw")
    + [
        Contract(
            M + "Column.__eq__",
            props=["C16", "C06", "C04", "C08"],
            params={"other": "Any"},
            ensures={"equal_iff_same_printed_name_and_same_owner": "result == (isinstance(other, Column) and str(self) == str(other) and self.parent == other.parent)"},
            modifies=[],
            at_calls=False,
        ),
        Contract(M + "Column.__hash__", props=["C16", "C06", "C08"], ensures={"hash_is_a_function_of_the_printed_name": "result == hash(str(self))"}, modifies=[], at_calls=False),
    ]
)
