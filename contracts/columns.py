"""C02 / C08 / C06: the owner bookkeeping of a Column and the resolution of its references against a scope map."""
from pyvc.engine import LoopSpec
from pyvc.spec import Contract

M = "sqllineage.core.models."
OWNERS = "forall(lambda c, p: implies(c in source_columns and p in c._parent, p in scope or (isinstance(p, Table) and is_fresh(p))))"

CONTRACTS = [
    Contract(
        M + "Column.parent",
        props=["C02", "C08", "C06"],
        returns="Optional[Union[Path, Table, SubQuery]]",
        ensures={
            "the_only_candidate_is_the_owner": "implies(len(self._parent) == 1, result in self._parent)",
            "several_or_no_candidates_mean_unresolved": "implies(len(self._parent) != 1, result is None)",
        },
        modifies=[],
        at_calls=False,
        canary={"always_unresolved": "result is None"},
    ),
    Contract(
        M + "Column.parent@setter",
        props=["C02", "C08", "C06"],
        params={"value": "Union[Path, Table, SubQuery]"},
        ensures={
            "the_value_becomes_a_candidate_and_no_candidate_is_lost": "forall(lambda p: (p in self._parent) == (p in old(self._parent) or p == value))",
        },
        modifies=["self._parent"],
        at_calls=False,
        canary={"candidates_unchanged": "forall(lambda p: (p in self._parent) == (p in old(self._parent)))"},
    ),
    Contract(
        M + "Column.parent_candidates",
        props=["C02", "C08", "C11"],
        returns="list[Union[Path, Table, SubQuery]]",
        ensures={
            "lists_exactly_the_candidates": "forall(lambda p: (p in result) == (p in self._parent))",
            "each_candidate_once": "len(result) == len(self._parent)",
            "sorted_by_printed_name_whatever_the_set_order": "result == sorted(self._parent, key=lambda p: str(p))",
        },
        modifies=[],
        at_calls=False,
        # no canary: z3 finds no model of the quantified enumeration facts in budget (unknown, neither proved nor refuted)
    ),
    Contract(
        M + "Column.__init__",
        props=["C02", "C08", "C16"],
        params={"name": "str", "kwargs": "dict[str, list[tuple[str, Optional[str]]]]"},
        ensures={
            "no_owner_yet": "len(self._parent) == 0",
            "name_is_normalised": "self.raw_name == escape_identifier_name(name)",
            "without_references_a_column_refers_to_itself_unqualified": "implies('source_columns' not in kwargs, len(self.source_columns) == 1 and self.source_columns[0][0] == escape_identifier_name(self.raw_name) and self.source_columns[0][1] is None)",
            "alias_flag_defaults_to_false": "implies('from_alias' not in kwargs, self.from_alias is False)",
        },
        raises={"*": {"when": None}},
        modifies=["self._parent", "self.raw_name", "self.source_columns", "self.from_alias"],
        at_calls=False,
    ),
    Contract(
        M + "Column.to_source_columns",
        props=["C02", "C08", "C06"],
        params={"alias_mapping": "dict[str, Union[Path, Table, SubQuery]]"},
        returns="set[Column]",
        lets={"scope": "set(alias_mapping.values())"},
        ensures={
            "only_new_columns_are_returned": "forall(lambda c: implies(c in result, isinstance(c, Column) and is_fresh(c)))",
            "owners_come_from_the_scope_or_are_the_fallback_table_of_an_unknown_qualifier": OWNERS.replace("source_columns", "result"),
        },
        raises={"*": {"when": None}},
        modifies=["fresh._parent", "fresh.raw_name", "fresh.source_columns", "fresh.from_alias", "fresh.schema", "fresh.alias"],
        canary={"never_returns": "False"},
        at_calls=False,
        loops={
            0: LoopSpec(
                inv={
                    "only_new_columns": "forall(lambda c: implies(c in source_columns, isinstance(c, Column) and is_fresh(c) and alive(c)))",
                    "owners_from_scope_or_fallback": OWNERS,
                },
                step={
                    "nothing_is_taken_back": "forall(lambda c: implies(c in pre_iter(source_columns), c in source_columns))",
                    "every_reference_but_a_wildcard_yields_a_column": "implies(not (qualifier is None and src_col == '*'), exists(lambda c: (c in source_columns and c not in pre_iter(source_columns))))",
                    "new_columns_carry_the_referenced_name": "forall(lambda c: implies((c in source_columns and c not in pre_iter(source_columns)), c.raw_name == escape_identifier_name(src_col)))",
                    "qualified.known_qualifier_resolves_to_the_relation_that_carries_it": "implies(qualifier is not None and bool(alias_mapping.get(qualifier)), forall(lambda c, p: implies((c in source_columns and c not in pre_iter(source_columns)), (p in c._parent) == (p == alias_mapping[qualifier]))))",
                    "qualified.unknown_qualifier_falls_back_to_a_new_table": "implies(qualifier is not None and not alias_mapping.get(qualifier), forall(lambda c, p: implies((c in source_columns and c not in pre_iter(source_columns)) and p in c._parent, isinstance(p, Table) and is_fresh(p))))",
                    "unqualified.candidates_are_exactly_the_relations_in_scope_never_a_guess": "implies(qualifier is None and src_col != '*', forall(lambda c, p: implies((c in source_columns and c not in pre_iter(source_columns)), (p in c._parent) == (p in scope))))",
                    "wildcard.owners_are_relations_in_scope": "implies(qualifier is None and src_col == '*', forall(lambda c, p: implies((c in source_columns and c not in pre_iter(source_columns)) and p in c._parent, p in scope)))",
                },
                modifies=["fresh._parent", "fresh.raw_name", "fresh.source_columns", "fresh.from_alias", "fresh.schema", "fresh.alias"],
                allocates=True,
            ),
            1: LoopSpec(
                inv={
                    "only_new_columns": "forall(lambda c: implies(c in source_columns, isinstance(c, Column) and is_fresh(c) and alive(c)))",
                    "owners_from_scope_or_fallback": OWNERS,
                    "kept": "forall(lambda c: implies(c in pre_loop(source_columns), c in source_columns))",
                    "new_columns_are_wildcards": "forall(lambda c: implies(c in source_columns and c not in pre_loop(source_columns), c.raw_name == escape_identifier_name(src_col)))",
                    "new_columns_are_owned_by_visited_relations": "forall(lambda c, p: implies(c in source_columns and c not in pre_loop(source_columns) and p in c._parent, p in _done))",
                },
                step={
                    "a_wildcard_column_for_the_visited_relation": "implies(bool(table), exists(lambda c: (c in source_columns and c not in pre_iter(source_columns))))",
                    "owned_by_exactly_that_relation": "implies(bool(table), forall(lambda c, p: implies((c in source_columns and c not in pre_iter(source_columns)), (p in c._parent) == (p == table))))",
                },
                modifies=["fresh._parent", "fresh.raw_name", "fresh.source_columns", "fresh.from_alias"],
                allocates=True,
            ),
            2: LoopSpec(
                inv={"candidates_are_the_visited_relations": "forall(lambda p: (p in source._parent) == (p in _done))"},
                modifies=["source._parent"],
            ),
        },
    ),
]
