"""C06: the holder mutators keep the combined graph typed (lineage edges join Columns, has_column edges lead from an owner
of the column to the column) - the representation invariant that get_column_lineage's path shape relies on."""
from pyvc.engine import LoopSpec
from pyvc.spec import Contract

SQ = "sqllineage.core.holders.SubQueryLineageHolder."
G = "self.graph"
TYPED = lambda g: (
    f"forall(lambda u, v: implies(gedge({g}, u, v) and getype({g}, u, v) == 'lineage', isinstance(u, Column) and isinstance(v, Column)))"
    f" and forall(lambda u, v: implies(gedge({g}, u, v) and getype({g}, u, v) == 'has_column', isinstance(v, Column) and u in v._parent))"
)
TYPED_L = lambda g: f"forall(lambda u, v: implies(gedge({g}, u, v) and getype({g}, u, v) == 'lineage', isinstance(u, Column) and isinstance(v, Column)))"
TYPED_H = lambda g: f"forall(lambda u, v: implies(gedge({g}, u, v) and getype({g}, u, v) == 'has_column', isinstance(v, Column) and u in v._parent))"
OTHER_EDGES = lambda touched: (
    f"forall(lambda u, v: implies(not ({touched}), gedge({G}, u, v) == old(gedge({G}, u, v)) and getype({G}, u, v) == old(getype({G}, u, v))))"
)

MX = "sqllineage.core.holders.ColumnLineageMixin."
PT = "p='tuple[Any, ...]'"
# the two end-point clauses (first column has no column predecessor, last no column successor) need degree reasoning through
# the filtered sub-graph view that z3 does not finish: they are checked by the bounded native run only
PATHS = lambda cols: {
    "every_path_has_at_least_one_hop": f"forall(lambda p: implies(p in {cols}, len(p) >= 2), {PT})",
    "paths_are_chains_of_direct_edges": f"forall(lambda p, i: implies(p in {cols} and 0 <= i and i < len(p) - 1, gedge({G}, p[i], p[i + 1])), {PT}, i='int')",
}

CONTRACTS = [
    Contract(
        MX + "get_column_lineage",
        props=["C06"],
        # C11: the accessor writes nothing (no memo that a later call with other flags could read back)
        clause_props={"frame": ["C06", "C11"]},
        params={"exclude_path_ending_in_subquery": "bool", "exclude_subquery_columns": "bool"},
        requires={"default_path_shape": "not exclude_subquery_columns"},
        ensures=PATHS("result"),
        raises={"*": {"when": None}},
        modifies=[],
        loops={0: LoopSpec(inv=PATHS("columns"), modifies=[]), 1: LoopSpec(inv=PATHS("columns"), modifies=[])},
        # no reachability canary: z3 finds no model of the quantified graph facts within budget (undecided, not vacuous: the
        # only precondition is a flag value, and the native corpus run executes the function on 450 inputs)
        at_calls=False,
    ),
    Contract(
        SQ + "add_column_lineage",
        props=["C06"],
        params={"src": "Column", "tgt": "Column"},
        requires={"target_has_exactly_one_owner": "len(tgt._parent) == 1", "owners_are_objects": "None not in src._parent and None not in tgt._parent", "owners_are_relations_not_columns": "forall(lambda p: implies(p in src._parent or p in tgt._parent, not isinstance(p, Column)))"},
        ensures={
            "direct_dependency_recorded": f"gedge({G}, src, tgt) and getype({G}, src, tgt) == 'lineage'",
            "target_column_hangs_under_its_owner": f"forall(lambda p: implies(p in tgt._parent, gedge({G}, p, tgt) and getype({G}, p, tgt) == 'has_column'))",
            "resolved_source_column_hangs_under_its_owner": f"implies(len(src._parent) == 1, forall(lambda p: implies(p in src._parent, gedge({G}, p, src) and getype({G}, p, src) == 'has_column')))",
            "graph_stays_typed": f"implies(old({TYPED(G)}), {TYPED(G)})",
            "no_other_edge_touched": OTHER_EDGES("(u is src and v is tgt) or (v is tgt and u in tgt._parent) or (v is src and u in src._parent)"),
        },
        raises={"*": {"when": None}},
        modifies=["self.graph"],
        canary={"never_returns": "False"},
        at_calls=False,
    ),
    Contract(
        SQ + "add_write_column",
        props=["C06"],
        params={"tgt_cols": "list[Column]"},
        requires={"columns_not_yet_owned": "forall(lambda j: implies(0 <= j and j < len(tgt_cols), len(tgt_cols[j]._parent) == 0), j='int')"},
        ensures={"graph_stays_typed": f"implies(old({TYPED(G)}), {TYPED(G)})"},
        raises={"*": {"when": None}},
        modifies=["self.graph", "*._parent"],
        loops={
            0: LoopSpec(
                inv={
                    "typed": f"implies(pre_loop({TYPED(G)}), {TYPED(G)})",
                    "owner_sets_only_grow": "forall(lambda c, p: implies(pre_loop(p in c._parent), p in c._parent), c='Column')",
                },
                modifies=["self.graph", "*._parent"],
            )
        },
        at_calls=False,
    ),
    # ---- the tag / alias mutators: what a statement holder can contain at all (the WF_H that C03's assembly requires) ----------
    Contract(
        SQ + "_property_setter",
        props=["C06"],
        params={"value": "Any", "prop": "str"},
        requires={"a_real_node": "value is not None"},
        ensures={
            "node_present_and_tagged": f"gnode({G}, value) and gtag({G}, value, prop) is True",
            "no_edge_touched": f"forall(lambda u, v: gedge({G}, u, v) == old(gedge({G}, u, v)) and getype({G}, u, v) == old(getype({G}, u, v)))",
            "no_other_node_touched": f"forall(lambda n: implies(n != value, gnode({G}, n) == old(gnode({G}, n))))",
            "no_other_tag_touched": f"forall(lambda n, k: implies(n != value or k != prop, implies(gnode({G}, n) and old(gnode({G}, n)), gtag({G}, n, k) == old(gtag({G}, n, k)))))",
        },
        raises={"*": {"when": None}},
        modifies=["self.graph"],
        at_calls=False,
    ),
    Contract(
        SQ + "add_write",
        props=["C06"],
        params={"value": "Union[Table, SubQuery, Path]"},
        ensures={
            "tagged_written": f"gnode({G}, value) and gtag({G}, value, 'write') is True",
            "no_edge_touched": f"forall(lambda u, v: gedge({G}, u, v) == old(gedge({G}, u, v)) and getype({G}, u, v) == old(getype({G}, u, v)))",
            "graph_stays_typed": f"implies(old({TYPED(G)}), {TYPED(G)})",
        },
        raises={"*": {"when": None}},
        modifies=["self.graph"],
        at_calls=False,
    ),
    Contract(
        SQ + "add_cte",
        props=["C06"],
        params={"value": "SubQuery"},
        ensures={
            "tagged_cte": f"gnode({G}, value) and gtag({G}, value, 'cte') is True",
            "no_edge_touched": f"forall(lambda u, v: gedge({G}, u, v) == old(gedge({G}, u, v)) and getype({G}, u, v) == old(getype({G}, u, v)))",
        },
        raises={"*": {"when": None}},
        modifies=["self.graph"],
        at_calls=False,
    ),
    Contract(
        SQ + "add_read",
        props=["C06", "C08"],
        params={"value": "Union[Table, SubQuery, Path]"},
        ensures={
            "tagged_read": f"gnode({G}, value) and gtag({G}, value, 'read') is True",
            "alias_recorded": f"implies(not isinstance(value, Path), gedge({G}, value, value.alias) and getype({G}, value, value.alias) == 'has_alias')",
            # with alias_recorded (the one edge that may change is typed has_alias) this gives: a typed graph stays typed
            "only_the_alias_edge_is_touched": f"forall(lambda u, v: implies(not (u is value and not isinstance(value, Path) and v == value.alias), gedge({G}, u, v) == old(gedge({G}, u, v)) and getype({G}, u, v) == old(getype({G}, u, v))))",
            "no_edge_between_datasets_is_added": f"forall(lambda u, v: implies(ds(u) and ds(v), gedge({G}, u, v) == old(gedge({G}, u, v))))",
        },
        raises={"*": {"when": None}},
        modifies=["self.graph"],
        at_calls=False,
    ),
    Contract(
        SQ + "get_table_columns",
        props=["C06", "C04"],
        params={"table": "Union[Table, SubQuery]"},
        returns="list[Column]",
        ensures={
            "exactly_the_named_columns_hanging_under_the_relation": f"forall(lambda c: (c in result) == (gedge({G}, table, c) and getype({G}, table, c) == 'has_column' and isinstance(c, Column) and c.raw_name != '*'))",
        },
        raises={"*": {"when": None}},
        modifies=[],
        at_calls=False,
    ),
    Contract(
        SQ + "_get_target_table",
        props=["C06", "C02"],
        returns="Optional[Union[SubQuery, Table]]",
        ensures={
            "a_relation_that_is_written_and_not_read": f"implies(result is not None, gnode({G}, result) and gtag({G}, result, 'write') is True and not (gtag({G}, result, 'read') is True))",
            # the converse (None only if every written relation is also read) holds but stays `unknown` in z3 on the statement-holder
            # path (nested set comprehensions of the overriding read / write): not claimed
        },
        raises={"*": {"when": None}},
        modifies=[],
        at_calls=False,
    ),
    Contract(
        SQ + "get_source_columns",
        props=["C06", "C02"],
        params={"node": "Column"},
        returns="list[Column]",
        ensures={
            "exactly_the_columns_with_a_direct_lineage_edge_into_the_node": f"forall(lambda c: (c in result) == (gedge({G}, c, node) and getype({G}, c, node) == 'lineage' and isinstance(c, Column)))",
        },
        raises={"*": {"when": None}},
        modifies=[],
        at_calls=False,
    ),
]
