"""C06: the holder mutators keep the combined graph typed (lineage edges join Columns, has_column edges lead from an owner
of the column to the column) - the representation invariant that get_column_lineage's path shape relies on."""
from pyvc.engine import LoopSpec
from pyvc.spec import Contract

SQ = "sqllineage.core.holders.SubQueryLineageHolder."
G = "self.graph"
TYPED = lambda g: (
    f"forall(lambda u, v: implies(gedge({g}, u, v) and getype({g}, u, v) == 'lineage', isinstance(u, Column) and isinstance(v, Column)))"
    f" and forall(lambda u, v: implies(gedge({g}, u, v) and getype({g}, u, v) == 'has_column', isinstance(v, Column) and u in v._parent))"
)
OTHER_EDGES = lambda touched: (
    f"forall(lambda u, v: implies(not ({touched}), gedge({G}, u, v) == old(gedge({G}, u, v)) and getype({G}, u, v) == old(getype({G}, u, v))))"
)

MX = "sqllineage.core.holders.ColumnLineageMixin."
PT = "p='tuple[Any, ...]'"
# the two end-point clauses (first column has no column predecessor, last no column successor) need degree reasoning through
# the filtered sub-graph view that z3 does not finish: they are checked by the bounded native run only
PATHS = lambda cols: {
    "every_path_has_at_least_one_hop": f"forall(lambda p: implies(p in {cols}, len(p) >= 2), {PT})",
    "paths_are_chains_of_direct_edges": f"forall(lambda p, i: implies(p in {cols} and 0 <= i and i < len(p) - 1, gedge({G}, p[i], p[i + 1])), {PT}, i='int')",
}

CONTRACTS = [
    Contract(
        MX + "get_column_lineage",
        props=["C06"],
        params={"exclude_path_ending_in_subquery": "bool", "exclude_subquery_columns": "bool"},
        requires={"default_path_shape": "not exclude_subquery_columns"},
        ensures=PATHS("result"),
        raises={"*": {"when": None}},
        modifies=[],
        loops={0: LoopSpec(inv=PATHS("columns"), modifies=[]), 1: LoopSpec(inv=PATHS("columns"), modifies=[])},
        # no reachability canary: z3 finds no model of the quantified graph facts within budget (undecided, not vacuous: the
        # only precondition is a flag value, and the native corpus run executes the function on 450 inputs)
        at_calls=False,
    ),
    Contract(
        SQ + "add_column_lineage",
        props=["C06"],
        params={"src": "Column", "tgt": "Column"},
        requires={"target_has_exactly_one_owner": "len(tgt._parent) == 1", "owners_are_objects": "None not in src._parent and None not in tgt._parent", "owners_are_relations_not_columns": "forall(lambda p: implies(p in src._parent or p in tgt._parent, not isinstance(p, Column)))"},
        ensures={
            "direct_dependency_recorded": f"gedge({G}, src, tgt) and getype({G}, src, tgt) == 'lineage'",
            "target_column_hangs_under_its_owner": f"forall(lambda p: implies(p in tgt._parent, gedge({G}, p, tgt) and getype({G}, p, tgt) == 'has_column'))",
            "resolved_source_column_hangs_under_its_owner": f"implies(len(src._parent) == 1, forall(lambda p: implies(p in src._parent, gedge({G}, p, src) and getype({G}, p, src) == 'has_column')))",
            "graph_stays_typed": f"implies(old({TYPED(G)}), {TYPED(G)})",
            "no_other_edge_touched": OTHER_EDGES("(u is src and v is tgt) or (v is tgt and u in tgt._parent) or (v is src and u in src._parent)"),
        },
        raises={"*": {"when": None}},
        modifies=["self.graph"],
        canary={"never_returns": "False"},
        at_calls=False,
    ),
    Contract(
        SQ + "add_write_column",
        props=["C06"],
        params={"tgt_cols": "list[Column]"},
        requires={"columns_not_yet_owned": "forall(lambda j: implies(0 <= j and j < len(tgt_cols), len(tgt_cols[j]._parent) == 0), j='int')"},
        ensures={"graph_stays_typed": f"implies(old({TYPED(G)}), {TYPED(G)})"},
        raises={"*": {"when": None}},
        modifies=["self.graph", "*._parent"],
        loops={
            0: LoopSpec(
                inv={
                    "typed": f"implies(pre_loop({TYPED(G)}), {TYPED(G)})",
                    "owner_sets_only_grow": "forall(lambda c, p: implies(pre_loop(p in c._parent), p in c._parent), c='Column')",
                },
                modifies=["self.graph", "*._parent"],
            )
        },
        at_calls=False,
    ),
]
