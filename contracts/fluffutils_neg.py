"""C07: the two functions through which every sqlfluff extractor looks at the children of a parse-tree node."""
from pyvc.spec import Contract

U = "sqllineage.core.parser.sqlfluff.utils."
NEGL = "(seg.is_whitespace or seg.is_comment or bool(seg.is_meta))"

CONTRACTS = [
    Contract(
        U + "is_negligible",
        props=["C07"],
        params={"segment": "BaseSegment"},
        pure_function=True,
        ensures={
            "whitespace_and_line_breaks_are_negligible": "implies(segment.is_whitespace, result)",
            "comments_of_every_kind_are_negligible": "implies(segment.is_comment, result)",
            "meta_segments_are_negligible": "implies(bool(segment.is_meta), result)",
            "code_is_not_negligible": "implies(not segment.is_whitespace and not segment.is_comment and not bool(segment.is_meta) and segment.type != 'symbol', not result)",
            "the_star_is_not_negligible": "implies(not segment.is_whitespace and not segment.is_comment and not bool(segment.is_meta) and segment.raw == '*', not result)",
        },
        modifies=[],
        canary={"always_negligible": "result"},
    ),
]
