"""Contracts on sqllineage/core/metadata_provider.py and core/metadata/dummy.py (C12, C04, C13)."""
from pyvc.engine import LoopSpec
from pyvc.spec import Contract

P = "sqllineage.core.metadata_provider.MetaDataProvider."
S_ = "sqllineage.core.metadata_provider.MetaDataSession."
D = "sqllineage.core.metadata.dummy.DummyMetaDataProvider."
FIELDS = {
    ("MetaDataProvider", "_session_metadata"): "dict[str, list[str]]",
    ("MetaDataSession", "metadata_provider"): "MetaDataProvider",
    ("DummyMetaDataProvider", "metadata"): "dict[str, list[str]]",
}
OTHER_KEYS = "forall(lambda k: implies(k != str(table), (k in self._session_metadata) == old(k in self._session_metadata) and self._session_metadata.get(k) == old(self._session_metadata.get(k))), k='str')"

CONTRACTS = [
    Contract(
        P + "__init__",
        props=["C12", "C04"],
        ensures={"starts_without_session_metadata": "self._session_metadata == {}"},
        modifies=["self._session_metadata"],
    ),
    Contract(
        P + "_get_table_columns",
        props=["C12", "C13"],
        assume_only=True,
        pure_function=True,
        params={"kwargs": "dict[str, Any]"},
        returns="list[str]",
        raises={"*": {"when": None}},
        modifies=[],
        notes="abstract hook implemented by subclasses: an arbitrary answer (or any exception), a function of (provider, schema, table)",
    ),
    Contract(
        P + "get_table_columns",
        props=["C12", "C13", "C04"],
        assume_only=True,
        params={"kwargs": "dict[str, Any]"},
        returns="list[Column]",
        raises={"*": {"when": None}},
        modifies=[],
        notes="used modularly by graph-level code: returns Column objects (possibly none) or raises; verified separately (C13/C04)",
    ),
    Contract(
        P + "register_session_metadata",
        props=["C12", "C04"],
        ensures={
            "registers_the_columns": "self._session_metadata[str(table)] == [c.raw_name for c in columns]",
            "other_tables_untouched": OTHER_KEYS,
        },
        modifies=["self._session_metadata"],
    ),
    Contract(
        P + "deregister_session_metadata",
        props=["C12"],
        ensures={"forgets_everything": "self._session_metadata == {}"},
        modifies=["self._session_metadata"],
    ),
    Contract(
        P + "session",
        props=["C12"],
        ensures={"session_of_this_provider": "result.metadata_provider is self", "new_session": "is_fresh(result)"},
        modifies=[],
        returns="MetaDataSession",
        fresh_result=True,
        at_calls=False,
    ),
    Contract(P + "__bool__", props=["C13"], ensures={"base_provider_is_ready": "result is True"}, modifies=[], at_calls=False),
    Contract(
        S_ + "__init__",
        props=["C12"],
        ensures={"keeps_provider": "self.metadata_provider is metadata_provider"},
        modifies=["self.metadata_provider"],
        at_calls=False,
    ),
    Contract(S_ + "__enter__", props=["C12"], ensures={"returns_itself": "result is self"}, modifies=[], at_calls=False),
    Contract(
        S_ + "__exit__",
        props=["C12", "C13"],  # C13: what a run learned never outlives it, so a table the catalog does not know is unknown again
        lets={"prov": "self.metadata_provider"},
        ensures={
            "forgets_session_metadata": "prov._session_metadata == {}",
            "does_not_swallow_the_error": "not result",
        },
        modifies=["prov._session_metadata"],
        canary={"still_registered": "len(prov._session_metadata) > 0"},
    ),
    Contract(
        S_ + "register_session_metadata",
        props=["C12", "C04"],
        lets={"prov": "self.metadata_provider"},
        ensures={
            "registers_the_columns": "prov._session_metadata[str(table)] == [c.raw_name for c in columns]",
        },
        modifies=["prov._session_metadata"],
        at_calls=False,
    ),
    Contract(
        D + "__init__",
        props=["C12", "C13"],
        params={"metadata": "Optional[dict[str, list[str]]]"},
        ensures={
            "starts_without_session_metadata": "self._session_metadata == {}",
            "keeps_given_metadata": "implies(metadata is not None, self.metadata == metadata)",
            "default_is_empty": "implies(metadata is None, self.metadata == {})",
        },
        modifies=["self._session_metadata", "self.metadata"],
        at_calls=False,
    ),
    Contract(
        D + "__bool__",
        props=["C12", "C13"],
        ensures={"ready_iff_it_has_metadata": "result == (len(self.metadata) > 0)"},
        modifies=[],
        at_calls=False,
    ),
    Contract(
        D + "_get_table_columns",
        props=["C13"],
        params={"kwargs": "dict[str, Any]"},
        ensures={
            "known_table": "implies((schema + '.' + table) in self.metadata, result == self.metadata[schema + '.' + table])",
            "unknown_table_has_no_columns": "implies((schema + '.' + table) not in self.metadata, len(result) == 0)",
        },
        modifies=[],
        at_calls=False,
    ),
]
