"""C13: the provider look-up itself, verified (overrides the assumed modular contract of contracts/metadata.py)."""
from pyvc.engine import LoopSpec
from pyvc.spec import Contract

P = "sqllineage.core.metadata_provider.MetaDataProvider."
COLS = "(self._session_metadata[str(table)] if str(table) in self._session_metadata else self._get_table_columns(str(table.schema), table.raw_name, **kwargs))"

CONTRACTS = [
    Contract(
        "sqllineage.utils.helpers.escape_identifier_name",
        props=["C13"],
        assume_only=True,
        pure_function=True,
        params={"name": "str"},
        returns="str",
        modifies=[],
        notes="only its functionality (same text -> same normal form) is needed here; its three-case postcondition is proved under C16 (contracts/models.py)",
    ),
    Contract(
        P + "get_table_columns",
        props=["C13", "C04"],
        params={"kwargs": "dict[str, Any]", "table": "Table"},
        returns="list[Column]",
        lets={"cols": COLS},
        ensures={
            "one_column_per_listed_name_and_none_for_an_unknown_table": "len(result) == len(cols)",
            "every_column_is_owned_by_exactly_the_asked_table": "forall(lambda j: implies(0 <= j and j < len(result), result[j]._parent == {table}), j='int')",
            "names_are_the_listed_names_normalised_once": "forall(lambda j: implies(0 <= j and j < len(result), result[j].raw_name == escape_identifier_name(cols[j])), j='int')",
            "columns_are_new_objects": "forall(lambda j: implies(0 <= j and j < len(result), is_fresh(result[j])), j='int')",
        },
        raises={"*": {"when": None}},
        modifies=["fresh._parent", "fresh.raw_name", "fresh.source_columns", "fresh.from_alias"],
        loops={
            0: LoopSpec(
                inv={
                    "one_per_name": "len(columns) == _i",
                    "owned": "forall(lambda j: implies(0 <= j and j < _i, columns[j]._parent == {table}), j='int')",
                    "named": "forall(lambda j: implies(0 <= j and j < _i, columns[j].raw_name == escape_identifier_name(cols[j])), j='int')",
                    "new": "forall(lambda j: implies(0 <= j and j < _i, is_fresh(columns[j]) and alive(columns[j])), j='int')",
                },
                modifies=["fresh._parent", "fresh.raw_name", "fresh.source_columns", "fresh.from_alias"],
                allocates=True,
            )
        },
        canary={"never_returns": "False"},
    ),
]
