"""Contracts on sqllineage/core/holders.py (C03; reused by C06, C11, C13, C18).

Vocabulary (spec functions, installed below): for a DiGraph value g
  ds(x)            x is a dataset object (Table or Path)
  gnode(g, x)      x is a node of g                       gedge(g, u, v)   (u, v) is an edge of g
  gtag(g, x, k)    node attribute k of x (None if absent)  getype(g, u, v)  edge attribute 'type'
  tv_in(g, t)      some dataset node u of g has an edge u -> t     tv_out(g, t)  ... t -> u
The *table view* TV(g) is: dataset nodes, edges among dataset nodes, and the source_only / target_only / selfloop tags.
"""
import z3

from pyvc import sorts as S
from pyvc.engine import LoopSpec
from pyvc.nx_model import as_graph
from pyvc.sorts import V
from pyvc.spec import Contract
from pyvc.state import And, Not, Or
from pyvc.values import TAny, sv_bool, sv_v

H = "sqllineage.core.holders."
SQ = H + "SubQueryLineageHolder."
ST = H + "StatementLineageHolder."
SL = H + "SQLLineageHolder."


def install(engine):
    def is_ds(v):
        return And(V.is_obj(v), Or(engine.instance_of(v, "Table"), engine.instance_of(v, "Path")))

    def f_ds(engine, st, args, kwargs):
        st, b = engine.boxed(st, args[0])
        yield st, sv_bool(is_ds(b))

    def f_gnode(engine, st, args, kwargs):
        st, g = as_graph(engine, st, args[0])
        st, b = engine.boxed(st, args[1])
        yield st, sv_bool(g.t[0][b])

    def f_gedge(engine, st, args, kwargs):
        st, g = as_graph(engine, st, args[0])
        st, u = engine.boxed(st, args[1])
        st, v = engine.boxed(st, args[2])
        yield st, sv_bool(g.t[2][u, v])

    def f_gtag(engine, st, args, kwargs):
        st, g = as_graph(engine, st, args[0])
        st, n = engine.boxed(st, args[1])
        st, k = engine.boxed(st, args[2])
        yield st, sv_v(g.t[1][n, k], TAny)

    def f_getype(engine, st, args, kwargs):
        st, g = as_graph(engine, st, args[0])
        st, u = engine.boxed(st, args[1])
        st, v = engine.boxed(st, args[2])
        yield st, sv_v(g.t[3][u, v][V.str_(z3.StringVal("type"))], TAny)

    def f_tv_in(engine, st, args, kwargs):
        st, g = as_graph(engine, st, args[0])
        st, t = engine.boxed(st, args[1])
        u = S.fresh("u", V)
        yield st, sv_bool(z3.Exists([u], And(g.t[0][u], is_ds(u), g.t[2][u, t])))

    def f_tv_out(engine, st, args, kwargs):
        st, g = as_graph(engine, st, args[0])
        st, t = engine.boxed(st, args[1])
        u = S.fresh("u", V)
        yield st, sv_bool(z3.Exists([u], And(g.t[0][u], is_ds(u), g.t[2][t, u])))

    def f_gdeg0(engine, st, args, kwargs):
        """no incident edge at all: stated through networkx's degree (the term the code tests) with its defining facts"""
        from pyvc.nx_model import deg_def, tot_deg

        st, g = as_graph(engine, st, args[0])
        st, t = engine.boxed(st, args[1])
        e = g.t[2]
        facts = deg_def(e, t)
        yield st.with_facts(facts), sv_bool(tot_deg(e, t) == 0)

    engine.spec_funcs.update({"ds": f_ds, "gnode": f_gnode, "gedge": f_gedge, "gtag": f_gtag, "getype": f_getype, "tv_in": f_tv_in, "tv_out": f_tv_out, "gdeg0": f_gdeg0})


TAGSET = lambda tag: f"forall(lambda t: (t in result) == (gnode(self.graph, t) and ds(t) and gtag(self.graph, t, '{tag}') is True))"

# representation invariant of one statement holder, as far as the table view needs it (established by C06's mutators):
#  - the only dataset -> dataset edges a statement contributes are RENAME edges
#  - a statement graph carries no summary tags
WF_H = (
    "forall(lambda u, v: implies(gedge(h.graph, u, v), gnode(h.graph, u) and gnode(h.graph, v)))"
    " and forall(lambda u, v: implies(gedge(h.graph, u, v) and ds(u) and ds(v), getype(h.graph, u, v) == 'rename'))"
    " and forall(lambda n: gtag(h.graph, n, 'source_only') is None and gtag(h.graph, n, 'target_only') is None and gtag(h.graph, n, 'selfloop') is None)"
)

G1 = "nx.compose(pre_iter(g), holder.graph)"
TV_SAME = (
    "forall(lambda n: implies(ds(n), gnode(g, n) == gnode(pre_loop(g), n)))"
    " and forall(lambda u, v: implies(ds(u) and ds(v), gedge(g, u, v) == gedge(pre_loop(g), u, v)))"
    " and forall(lambda n: implies(ds(n), gtag(g, n, 'source_only') == gtag(pre_loop(g), n, 'source_only') and gtag(g, n, 'target_only') == gtag(pre_loop(g), n, 'target_only') and gtag(g, n, 'selfloop') == gtag(pre_loop(g), n, 'selfloop')))"
)
ONLY_COLUMNS = "forall(lambda j: implies(0 <= j and j < len(src_cols), isinstance(src_cols[j], Column)), j='int')"
FRESH_COLUMN_FIELDS = ["fresh._parent", "fresh.raw_name", "fresh.source_columns", "fresh.from_alias"]
EDGES_WF = "forall(lambda u, v: implies(gedge(g, u, v), gnode(g, u) and gnode(g, v)))"

CONTRACTS = [
    Contract(
        SL + "__init__",
        props=["C03"],
        ensures={
            "keeps_graph": "self.graph == graph",
            "selfloop_tables": TAGSET("selfloop").replace("result", "self._selfloop_tables"),
            "sourceonly_tables": TAGSET("source_only").replace("result", "self._sourceonly_tables"),
            "targetonly_tables": TAGSET("target_only").replace("result", "self._targetonly_tables"),
        },
        modifies=["self.graph", "self._selfloop_tables", "self._sourceonly_tables", "self._targetonly_tables"],
        at_calls=False,
    ),
    Contract(
        SL + "source_tables",
        props=["C03", "C11"],
        ensures={
            "source_role": "forall(lambda t: (t in result) == ((gnode(self.graph, t) and ds(t) and tv_out(self.graph, t) and not tv_in(self.graph, t)) or t in self._sourceonly_tables or t in self._selfloop_tables))"
        },
        modifies=[],
        canary={"nobody_is_a_source": "forall(lambda t: t not in result)"},
        at_calls=False,
    ),
    Contract(
        SL + "target_tables",
        props=["C03", "C11"],
        ensures={
            "target_role": "forall(lambda t: (t in result) == ((gnode(self.graph, t) and ds(t) and tv_in(self.graph, t) and not tv_out(self.graph, t)) or t in self._targetonly_tables or t in self._selfloop_tables))"
        },
        modifies=[],
        canary={"nobody_is_a_target": "forall(lambda t: t not in result)"},
        at_calls=False,
    ),
    Contract(
        SL + "intermediate_tables",
        props=["C03", "C11"],
        ensures={
            "intermediate_role": "forall(lambda t: (t in result) == (gnode(self.graph, t) and ds(t) and tv_in(self.graph, t) and tv_out(self.graph, t) and not (gtag(self.graph, t, 'selfloop') is True)))"
        },
        modifies=[],
        canary={"nobody_is_intermediate": "forall(lambda t: t not in result)"},
        at_calls=False,
    ),
    Contract(
        SL + "_build_digraph",
        props=["C03", "C06", "C11", "C13"],
        params={"args": "list[StatementLineageHolder]", "metadata_provider": "MetaDataProvider"},
        requires={
            "statement_holders_well_formed": "forall(lambda j: implies(0 <= j and j < len(args), (lambda h: " + WF_H + ")(args[j])), j='int')",
            "single_pair_renames": "forall(lambda j: implies(0 <= j and j < len(args), len(args[j].rename) <= 1), j='int')",
        },
        ensures={
            "edges_connect_nodes": "forall(lambda u, v: implies(gedge(result, u, v), gnode(result, u) and gnode(result, v)))",
            "selfloop_tag_iff_selfloop_edge": "forall(lambda n: implies(gnode(result, n) and ds(n), (gtag(result, n, 'selfloop') is True) == gedge(result, n, n)))",
        },
        raises={"*": {"when": None}},
        modifies=[],
        returns="DiGraph",
        at_calls=False,
        loops={
            0: LoopSpec(
                inv={"edges_connect_nodes": EDGES_WF, "no_selfloop_tags_yet": "forall(lambda n: gtag(g, n, 'selfloop') is None)"},
                step={
                    # ---- plain statement (no DROP, no RENAME) ------------------------------------------------------
                    "plain.nodes": "implies(not holder.drop and not holder.rename, forall(lambda n: gnode(g, n) == gnode(" + G1 + ", n)))",
                    "plain.edge_iff_read_and_written": "implies(not holder.drop and not holder.rename, forall(lambda u, v: implies(ds(u) and ds(v), gedge(g, u, v) == (gedge(pre_iter(g), u, v) or (u in holder.read and v in holder.write)))))",
                    "plain.source_only": "implies(not holder.drop and not holder.rename, forall(lambda n: implies(ds(n) and gnode(g, n), (gtag(g, n, 'source_only') is True) == ((gtag(pre_iter(g), n, 'source_only') is True and gnode(pre_iter(g), n)) or (n in holder.read and not holder.write)))))",
                    "plain.target_only": "implies(not holder.drop and not holder.rename, forall(lambda n: implies(ds(n) and gnode(g, n), (gtag(g, n, 'target_only') is True) == ((gtag(pre_iter(g), n, 'target_only') is True and gnode(pre_iter(g), n)) or (n in holder.write and not holder.read)))))",
                    # ---- DROP ------------------------------------------------------------------------------------
                    "drop.removes_only_untouched_dropped_tables": "implies(bool(holder.drop), forall(lambda n: gnode(g, n) == (gnode(" + G1 + ", n) and not (n in holder.drop and gdeg0(" + G1 + ", n)))))",
                    "drop.never_disturbs_edges": "implies(bool(holder.drop), forall(lambda u, v: gedge(g, u, v) == gedge(" + G1 + ", u, v)))",
                    "drop.never_disturbs_tags": "implies(bool(holder.drop), forall(lambda n: implies(gnode(g, n), gtag(g, n, 'source_only') == gtag(" + G1 + ", n, 'source_only') and gtag(g, n, 'target_only') == gtag(" + G1 + ", n, 'target_only'))))",
                    # ---- RENAME x TO y (single pair) ----------------------------------------------------------------
                    "rename.others_untouched": "implies(not holder.drop and bool(holder.rename), forall(lambda x, y: implies((x, y) in holder.rename, forall(lambda u, v: implies(u != x and u != y and v != x and v != y, gedge(g, u, v) == gedge(" + G1 + ", u, v) and gnode(g, u) == gnode(" + G1 + ", u))))))",
                    "rename.old_name_gone": "implies(not holder.drop and bool(holder.rename), forall(lambda x, y: implies((x, y) in holder.rename and x != y, not gnode(g, x))))",
                    "rename.new_name_takes_its_place": "implies(not holder.drop and bool(holder.rename), forall(lambda x, y: implies((x, y) in holder.rename and x != y and gnode(g, y), forall(lambda u: implies(u != x and u != y, gedge(g, u, y) == (gedge(" + G1 + ", u, y) or gedge(" + G1 + ", u, x)) and gedge(g, y, u) == (gedge(" + G1 + ", y, u) or gedge(" + G1 + ", x, u)))))))",
                    "rename.new_name_kept_only_if_connected": "implies(not holder.drop and bool(holder.rename), forall(lambda x, y: implies((x, y) in holder.rename and x != y, implies(gnode(g, y), not gdeg0(g, y)) and not gedge(g, y, y))))",
                    "rename.new_name_dropped_only_if_isolated": "implies(not holder.drop and bool(holder.rename), forall(lambda x, y: implies((x, y) in holder.rename and x != y and not gnode(g, y), forall(lambda u: implies(u != x and u != y, not gedge(g, u, y) and not gedge(g, y, u))))))",
                },
                modifies=[],
            ),
            1: LoopSpec(
                inv={
                    "nodes": "forall(lambda n: gnode(g, n) == (gnode(pre_loop(g), n) and not (n in _done and gdeg0(pre_loop(g), n))))",
                    "edges": "forall(lambda u, v: gedge(g, u, v) == gedge(pre_loop(g), u, v))",
                    "tags": "forall(lambda n, k: gtag(g, n, k) == gtag(pre_loop(g), n, k))",
                    "edges_connect_nodes": EDGES_WF,
                },
            ),
            2: LoopSpec(unroll=1),  # exact: a RENAME statement with a single pair (obligation: at most one element)
            4: LoopSpec(inv={"table_view_untouched": TV_SAME, "edges_connect_nodes": EDGES_WF}, modifies=FRESH_COLUMN_FIELDS, allocates=True),
            5: LoopSpec(inv={"only_columns_collected": ONLY_COLUMNS}, modifies=FRESH_COLUMN_FIELDS, allocates=True),
            6: LoopSpec(inv={"only_columns_collected": ONLY_COLUMNS}, modifies=FRESH_COLUMN_FIELDS, allocates=True),
            7: LoopSpec(inv={"only_columns_collected": ONLY_COLUMNS}, modifies=FRESH_COLUMN_FIELDS, allocates=True),
            8: LoopSpec(inv={"table_view_untouched": TV_SAME, "edges_connect_nodes": EDGES_WF}, modifies=[]),
            9: LoopSpec(inv={"table_view_untouched": TV_SAME, "edges_connect_nodes": EDGES_WF}, modifies=[]),
            3: LoopSpec(
                inv={
                    "nodes": "forall(lambda n: gnode(g, n) == gnode(pre_loop(g), n))",
                    "edges": "forall(lambda u, v: gedge(g, u, v) == (gedge(pre_loop(g), u, v) or (u, v) in _done))",
                    "tags": "forall(lambda n, k: gtag(g, n, k) == gtag(pre_loop(g), n, k))",
                    "edges_connect_nodes": EDGES_WF,
                },
            ),
        },
    ),
]

# ---- C10: the assembly raises nothing of its own (same body, same invariants, exception contract only) -----------------------
_bd = [c for c in CONTRACTS if c.func == SL + "_build_digraph"][0]
CONTRACTS.append(
    Contract(
        SL + "_build_digraph#C10",
        props=["C10"],
        params=_bd.params,
        requires=dict(_bd.requires, statement_holders_have_non_null_nodes="forall(lambda j: implies(0 <= j and j < len(args), forall(lambda n: implies(gnode(args[j].graph, n), n is not None))), j='int')"),
        raises={"<unknown>": {"when": None}},
        modifies=[],
        returns="DiGraph",
        at_calls=False,
        loops={k: LoopSpec(inv=dict(v.inv), modifies=list(v.modifies), unroll=v.unroll, allocates=v.allocates) for k, v in _bd.loops.items()},
        notes="internal-error freedom of the assembly: no KeyError / NetworkXError / ValueError / AttributeError path is feasible (single-pair RENAME statements; the metadata provider may raise its own errors)",
    )
)

