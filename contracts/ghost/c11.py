"""Lemma clients for C11 (verified against contracts only): result accessors can be called any number of times, in any
order, with the same answers -- the lazy wrapper evaluates at most once, accessors are pure."""
from sqllineage.runner import LineageRunner


def statements_twice(r: LineageRunner):
    a = r.statements()
    b = r.statements()
    return (a, b)


def sources_after_targets(r: LineageRunner):
    s1 = r.source_tables
    t1 = r.target_tables
    s2 = r.source_tables
    t2 = r.target_tables
    return (s1, s2, t1, t2)
