"""Lemma clients for C15: tiny programs over the public protocol of the configuration object.  They are verified
against the *contracts* of __call__/__enter__/__exit__/__getattr__ only (modular), never against the bodies, so each
is a lemma over contracts.  The `with` statement is desugared by the executor with an exceptional edge out of the body.
"""
import os

from sqllineage.config import _SQLLineageConfigLoader
from sqllineage.exceptions import ConfigException


def scope_roundtrip(cfg: _SQLLineageConfigLoader, kw: dict, K: str):
    with cfg(**kw):
        inside = cfg.__getattr__(K)
    after = cfg.__getattr__(K)
    return (inside, after)


def scope_exception(cfg: _SQLLineageConfigLoader, kw: dict, K: str):
    try:
        with cfg(**kw):
            raise RuntimeError()
    except RuntimeError:
        pass
    return cfg.__getattr__(K)


def rejected_nested(cfg: _SQLLineageConfigLoader, kw1: dict, kw2: dict, K: str):
    with cfg(**kw1):
        before = cfg.__getattr__(K)
        try:
            with cfg(**kw2):
                pass
        except ConfigException:
            pass
        after = cfg.__getattr__(K)
    return (before, after)


def rejected_unknown_key(cfg: _SQLLineageConfigLoader, kw: dict, K: str):
    before = cfg.__getattr__(K)
    try:
        with cfg(**kw):
            pass
    except ConfigException:
        pass
    after = cfg.__getattr__(K)
    return (before, after)
