"""Contracts on sqllineage/core/parser/sqlfluff/analyzer.py (C10) with the assumed (opaque) model of sqlfluff's Linter."""
import z3

from pyvc import sorts as S
from pyvc.sorts import V
from pyvc.engine import LoopSpec
from pyvc.spec import Contract
from pyvc.state import Raised
from pyvc.values import SV, SV_NONE, TAny, TList, TObj, class_id, parse_type, sv_list, sv_v

FA = "sqllineage.core.parser.sqlfluff.analyzer.SqlFluffLineageAnalyzer."
X = "sqllineage.core.parser.sqlfluff.extractors."
linter_of = z3.Function("sqlfluff_linter_of", V, V)
parse_of = z3.Function("sqlfluff_parse_string", V, S.Str, V)
children_of_len = z3.Function("segment_get_children_len", V, V, S.Int)
children_of_arr = z3.Function("segment_get_children_arr", V, V, S.SeqS)


def install(engine):
    def new_linter(engine, st, args, kwargs, node):
        cfg = kwargs.get("config", args[0] if args else None)
        st, b = engine.boxed(st, cfg)
        v = linter_of(b)
        yield st.with_facts([V.is_obj(v), S.cls_of(V.oid(v)) == class_id("Linter")]), sv_v(v, TObj("Linter"))

    def m_parse_string(engine, st, recv, args, kwargs, node):
        s = engine.as_str(args[0])
        v = parse_of(recv.t, s)
        if not (engine.spec_ctx or engine.spec_depth):
            yield st, Raised("<unknown>", where="Linter.parse_string")
        yield st.with_facts([V.is_obj(v), S.cls_of(V.oid(v)) == class_id("ParsedString")]), sv_v(v, TObj("ParsedString"))

    def m_get_children(engine, st, recv, args, kwargs, node):
        # typed filter over .segments: a list of child segments each of one of the requested types (no other guarantee)
        f_ = __import__("pyvc.values", fromlist=["Facts"]).Facts()
        types = []
        from pyvc.values import box, sv_tuple

        key = box(sv_tuple(args), f_)
        n = children_of_len(recv.t, key)
        arr = children_of_arr(recv.t, key)
        i = S.fresh("i", S.Int)
        tyf = engine.heap_arr(st, "type")
        ors = [V.sval(tyf[arr[i]]) == engine.as_str(a) for a in args]
        facts = [n >= 0, z3.ForAll([i], z3.Implies(z3.And(0 <= i, i < n), z3.And(V.is_obj(arr[i]), S.cls_of(V.oid(arr[i])) == class_id("BaseSegment"), z3.Or(*ors) if ors else z3.BoolVal(True))))]
        yield st.with_facts(f_.items + facts), sv_list(n, arr, TObj("BaseSegment"))

    engine.opaque_classes["Linter"] = {"new": new_linter, "fields": {}, "methods": {"parse_string": m_parse_string}}
    engine.opaque_classes["ParsedString"] = {"fields": {"violations": "list[Any]", "tree": "Optional[BaseSegment]"}, "methods": {}}
    engine.opaque_classes["BaseSegment"]["methods"]["get_children"] = m_get_children
    for nm in ("SQLLexError", "SQLParseError", "SQLTemplaterError"):
        engine.opaque_classes[nm] = {"fields": {}, "methods": {}}


G5 = "forall(lambda s: implies(isinstance(s, BaseSegment) and s.type == 'statement', len(s.segments) >= 1))"
PARSED = "Linter(config=self._sqlfluff_config).parse_string(sql)"
BADV = f"(len([str(e) for e in {PARSED}.violations if isinstance(e, (SQLLexError, SQLParseError, SQLTemplaterError))]) > 0)"
EXTRACTORS = {
    "select.SelectExtractor": ["select_statement", "set_expression", "bracketed"],
}


def _extract_contracts(repo_classes=None):
    out = []
    for mod, cls in (("select", "SelectExtractor"), ("create_insert", "CreateInsertExtractor"), ("cte", "CteExtractor"), ("update", "UpdateExtractor"), ("merge", "MergeExtractor"), ("copy", "CopyExtractor"), ("drop", "DropExtractor"), ("rename", "RenameExtractor"), ("noop", "NoopExtractor")):
        out.append(
            Contract(
                X + mod + "." + cls + ".extract",
                props=["C10"],
                assume_only=True,
                returns="SubQueryLineageHolder",
                fresh_result=True,
                raises={"<unknown>": {"when": None}},
                modifies=[],
                notes="ASSUMED: extraction from a parse tree returns a holder or raises; that it raises only the library's own exception types is NOT decided (code over third-party parse trees)",
            )
        )
    return out


CONTRACTS = _extract_contracts() + [
    Contract(
        FA + "_list_specific_statement_segment",
        props=["C10", "C05"],
        requires={"G5_statement_segments_have_a_child": G5},
        raises={
            "InvalidSyntaxException": {"when": BADV, "exact": True},
            "<unknown>": {"when": None},
        },
        ensures={"no_violation_reaches_the_extractors": f"not {BADV}"},
        modifies=[],
        returns="list[BaseSegment]",
        pure_function=True,
        loops={0: LoopSpec(inv={"collecting_only": "True"}), 1: LoopSpec(inv={"collecting_only": "True"})},
        canary={"never_returns": "False"},
    ),
    Contract(
        FA + "analyze",
        props=["C10"],
        lets={
            "segs": "[self.tsql_split_cache[sql]] if sql in self.tsql_split_cache else self._list_specific_statement_segment(sql)",
        },
        requires={"G5_statement_segments_have_a_child": G5},
        raises={
            # (the exact condition -- no segment, or no extractor supports the statement type and not silent -- was tried as an
            #  `exact` clause: z3's string solver leaves it `unknown` on the 40-way type disjunction; kept as a necessary condition)
            "UnsupportedStatementException": {"when": "len(segs) == 0 or not self._silent_mode"},
            "<unknown>": {"when": None},
        },
        ensures={
            "a_statement_holder_is_returned": "isinstance(result, StatementLineageHolder)",
        },
        modifies=["fresh.graph", "fresh.dialect", "fresh.metadata_provider", "fresh.columns", "fresh.tables", "fresh.union_barriers"],
        returns="StatementLineageHolder",
        at_calls=False,
        canary={"never_returns": "False"},
    ),
]
FIELDS = {("SqlFluffLineageAnalyzer", "_sqlfluff_config"): "FluffConfig"}
