"""Contracts on sqllineage/runner.py (C12, C04, C05, C11, C18) and the assumed contracts of what _eval calls."""
from pyvc.engine import LoopSpec
from pyvc.spec import Contract

R = "sqllineage.runner.LineageRunner."
FA = "sqllineage.core.parser.sqlfluff.analyzer.SqlFluffLineageAnalyzer."
PA = "sqllineage.core.parser.sqlparse.analyzer.SqlParseLineageAnalyzer."
H = "sqllineage.core.holders."

ANALYZE = dict(
    assume_only=True,
    returns="StatementLineageHolder",
    fresh_result=True,
    raises={"*": {"when": None}},
    modifies=[],
    ensures={"fresh_holder": "is_fresh(result)"},
    notes="ASSUMED: analysing one statement returns a new holder or raises; it writes nothing that outlives the call "
    "(the package-wide store scan K2 of C12 checks the repository side of this; sqlfluff/sqlparse purity is assumed)",
)

CONTRACTS = [
    Contract(FA + "analyze", props=["C12"], **ANALYZE),
    Contract(PA + "analyze", props=["C12"], **ANALYZE),
    Contract(
        FA + "split_tsql",
        props=["C05"],
        assume_only=True,
        pure_function=True,
        returns="list[str]",
        raises={"*": {"when": None}},
        modifies=[],
        notes="as seen by _eval: the texts of the statement segments, a function of (analyzer, text); verified in contracts/helpers.py (its cache write is internal to the fresh analyzer)",
    ),
    Contract(
        "sqllineage.utils.helpers.split",
        props=["C05"],
        assume_only=True,
        pure_function=True,
        returns="list[str]",
        raises={"*": {"when": None}},
        modifies=[],
        notes="as seen by _eval: a function of the text; verified in contracts/helpers.py against the sqlparse model",
    ),
    Contract(
        FA + "__init__",
        props=["C12"],
        ensures={"own_fresh_cache": "self.tsql_split_cache == {}", "keeps_mode": "self._silent_mode == silent_mode"},
        raises={"*": {"when": None}},
        modifies=["self._sqlfluff_config", "self._silent_mode", "self.tsql_split_cache"],
        notes="the T-SQL split cache is an instance attribute created empty for every analyzer (one analyzer per run)",
    ),
    Contract(
        H + "SQLLineageHolder.of",
        props=["C12"],
        assume_only=True,
        params={"args": "list[StatementLineageHolder]"},
        returns="SQLLineageHolder",
        fresh_result=True,
        raises={"*": {"when": None}},
        modifies=[],
        ensures={"fresh": "is_fresh(result)"},
        notes="for _eval only the frame matters: assembling writes fresh objects only (its functional contract is C03's)",
    ),
    Contract(
        R + "_eval",
        props=["C12", "C05"],
        # C10: a run that failed is not marked evaluated, so every later accessor evaluates again and fails with the SAME library
        # exception (it never reaches an accessor body with _sql_holder missing -> AttributeError)
        clause_props={"raises.*.ensures.not_marked_evaluated": ["C12", "C05", "C10"], "ensures.marked_evaluated": ["C12", "C05", "C10"]},
        lets={"prov": "self._metadata_provider"},
        ensures={
            "session_forgotten": "prov._session_metadata == {}",
            "marked_evaluated": "self._evaluated is True",
            "one_holder_per_statement_in_order": "len(self._stmt_holders) == len(self._stmt)",
            "tsql_batches_are_split_by_the_parser_iff_enabled_for_tsql": "implies(bool(SQLLineageConfig.TSQL_NO_SEMICOLON) and self._dialect == 'tsql', self._stmt == typed(analyzer, 'SqlFluffLineageAnalyzer').split_tsql(self._sql.strip()))",
            "otherwise_split_on_statement_boundaries": "implies(not (bool(SQLLineageConfig.TSQL_NO_SEMICOLON) and self._dialect == 'tsql'), self._stmt == split(self._sql.strip()))",
        },
        raises={
            "*": {
                "when": None,
                "ensures": {
                    "session_forgotten_however_the_run_ends": "implies(old(prov._session_metadata == {}), prov._session_metadata == {})",
                    "not_marked_evaluated": "self._evaluated == old(self._evaluated)",
                },
            }
        },
        modifies=["self._stmt", "self._stmt_holders", "self._sql_holder", "self._evaluated", "prov._session_metadata"],
        loops={
            0: LoopSpec(
                inv={
                    "one_holder_per_statement_so_far": "len(stmt_holders) == _i",
                    "statement_list_fixed": "self._stmt == pre_loop(self._stmt)",
                    "flag_untouched": "self._evaluated == old(self._evaluated)",
                },
                step={
                    "teaches_the_session_the_columns_of_the_written_table": "forall(lambda t: implies(t in stmt_holder.write and len(stmt_holder.write) == 1 and isinstance(t, Table) and len(stmt_holder.get_table_columns(t)) > 0, str(t) in prov._session_metadata and prov._session_metadata[str(t)] == [c.raw_name for c in stmt_holder.get_table_columns(t)]))",
                    "a_statement_that_writes_nothing_teaches_nothing": "implies(len(stmt_holder.write) == 0, prov._session_metadata == pre_iter(prov._session_metadata))",
                },
                step_props=["C04"],
                modifies=["prov._session_metadata"],
                allocates=True,
            )
        },
        canary={"never_completes": "False"},
    ),
    # ---- public sorted views (C03 summary, C11 determinism, C18 text summary) --------------------------------------
] + [
    Contract(
        R + name,
        props=["C03", "C11", "C18"],
        requires={"evaluated": "self._evaluated is True"},
        ensures={
            "same_tables_as_the_graph_roles": f"forall(lambda t: (t in result) == (t in self._sql_holder.{name}))",
            "each_once": f"len(result) == len(self._sql_holder.{name})",
            "sorted_by_printed_name": f"result == sorted(self._sql_holder.{name}, key=lambda t: str(t))",
        },
        modifies=[],
        at_calls=False,
        canary={"always_empty": "len(result) == 0"},
    )
    for name in ("source_tables", "target_tables", "intermediate_tables")
] + [
    Contract(
        "sqllineage.runner.lazy_method",
        props=["C11", "C12"],
        at_calls=False,
        notes="decorator: executed from source by the engine wherever a decorated accessor is called",
    ),
    Contract(
        "sqllineage.utils.helpers.trim_comment",
        props=["C05"],
        assume_only=True,
        pure_function=True,
        returns="str",
        modifies=[],
        notes="ASSUMED: sqlparse.format(strip_comments=True) is a function of the text",
    ),
    Contract(
        R + "statements",
        props=["C05", "C18"],
        requires={"evaluated": "self._evaluated is True"},
        ensures={
            "one_reported_statement_per_statement_in_order": "len(result) == len(self._stmt)",
            "each_is_the_trimmed_statement": "forall(lambda j: implies(0 <= j and j < len(self._stmt), result[j] == trim_comment(self._stmt[j])), j='int')",
        },
        modifies=[],
        at_calls=False,
    ),
    Contract(
        R + "to_cytoscape",
        props=["C18"],
        requires={"evaluated": "self._evaluated is True"},
        ensures={
            "column_level_exports_the_column_view": "implies(level == 'column', result == to_cytoscape(self._sql_holder.column_lineage_graph, compound=True))",
            "otherwise_exports_the_table_view": "implies(level != 'column', result == to_cytoscape(self._sql_holder.table_lineage_graph))",
        },
        modifies=[],
        at_calls=False,
    ),
    Contract(
        R + "__str__",
        props=["C18"],
        requires={"evaluated": "self._evaluated is True", "summary_only": "self._verbose is False"},
        ensures={
            "summary_lists_the_same_tables_in_the_same_sorted_order": (
                "result == 'Statements(#): ' + str(len(self.statements())) + '\\nSource Tables:\\n    ' + '\\n    '.join(str(t) for t in self.source_tables)"
                " + '\\nTarget Tables:\\n    ' + '\\n    '.join(str(t) for t in self.target_tables) + '\\n'"
                " + (('Intermediate Tables:\\n    ' + '\\n    '.join(str(t) for t in self.intermediate_tables)) if self.intermediate_tables else '')"
            )
        },
        modifies=[],
        at_calls=False,
    ),
]
