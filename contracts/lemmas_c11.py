"""Contracts of the C11 lemma clients and the modular views of what they call."""
from pyvc.spec import Contract

G = "verif_ghost.c11."
R = "sqllineage.runner.LineageRunner."
EVAL_FRAME = ["self._stmt", "self._stmt_holders", "self._sql_holder", "self._evaluated", "self._metadata_provider._session_metadata"]
CONTRACTS = [
    Contract(
        R + "_eval",
        props=["C11"],
        assume_only=True,
        ensures={"marked_evaluated": "self._evaluated is True"},
        raises={"*": {"when": None, "ensures": {"not_marked": "self._evaluated == old(self._evaluated)"}}},
        modifies=EVAL_FRAME,
        notes="modular view of _eval (proved under C12/C05): sets the flag on normal exit only; writes only the runner's own fields",
    ),
    Contract(
        "sqllineage.utils.helpers.trim_comment",
        props=["C11"],
        assume_only=True,
        pure_function=True,
        returns="str",
        modifies=[],
    ),
    Contract(
        G + "statements_twice",
        props=["C11"],
        ensures={"same_answer_both_times": "result[0] == result[1]", "evaluated_once": "r._evaluated is True"},
        raises={"*": {"when": None}},
        modifies=["r._stmt", "r._stmt_holders", "r._sql_holder", "r._evaluated", "r._metadata_provider._session_metadata"],
        at_calls=False,
        canary={"unreachable": "False"},
    ),
    Contract(
        G + "sources_after_targets",
        props=["C11"],
        ensures={
            "source_tables_do_not_depend_on_earlier_reads": "result[0] == result[1]",
            "target_tables_do_not_depend_on_earlier_reads": "result[2] == result[3]",
        },
        raises={"*": {"when": None}},
        modifies=["r._stmt", "r._stmt_holders", "r._sql_holder", "r._evaluated", "r._metadata_provider._session_metadata"],
        at_calls=False,
        canary={"unreachable": "False"},
    ),
]
