#!/bin/sh
# tools_mutant.sh <patch.diff> <property> [tier]: run a check against a scratch worktree of /repo HEAD with the patch applied
set -e
P="$1"; PROP="$2"; TIER="${3:-quick}"
mkdir -p /tmp/scr/ev
D=$(mktemp -d /tmp/scr/mutXXXXXX)
git -C /repo worktree add -q --detach "$D" HEAD
( cd "$D" && git apply "$P" )
cd /verif
set +e
VERIF_REPO="$D" VERIF_EVIDENCE_DIR=/tmp/scr/ev ./check "$PROP" --tier "$TIER" > "$D.out" 2>&1
rc=$?
set -e
grep -E "^(VIOLATION|UNDECIDED|CHECKER-FAULT|KNOWN|  failed|$PROP:)" "$D.out" | cut -c1-260 | head -${4:-14}
echo "exit=$rc"
git -C /repo worktree remove --force "$D"; rm -f "$D.out"
