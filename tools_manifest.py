"""Regenerates MANIFEST.json from props/*.py (claimed) + NOT_APPLICABLE below."""
import importlib, json, os, sys
ROOT=os.path.dirname(os.path.abspath(__file__)); sys.path.insert(0, ROOT)
props=[json.loads(l) for l in open(os.path.join(ROOT,'properties.jsonl'))]
NA = json.load(open(os.path.join(ROOT,'not_applicable.json')))
checks=[]; na=[]
for p in props:
    pid=p['id']
    if os.path.exists(os.path.join(ROOT,'props',pid+'.py')):
        pm=importlib.import_module('props.'+pid)
        checks.append({"property_id":pid,"quick_cmd":f"./check {pid} --tier quick","thorough_cmd":f"./check {pid} --tier thorough",
          "evidence_file":f"/verif/evidence/{pid}.json","replay_cmd_template":f"./check {pid} --replay {{path}}","engine":"pyvc",
          "level_claimed":{"category":pm.LEVEL,"text":pm.LEVEL_TEXT,"design_ref":pm.DESIGN_REF},
          "level_note":pm.LEVEL_NOTE,"technique":pm.TECHNIQUE})
    else:
        na.append({"property_id":pid,"reason":NA.get(pid,"check not built yet (framework under construction)")})
m={"version":1,"setup_cmd":"python3-vt -c 'import z3, sys; sys.path.insert(0, \"/verif\"); import pyvc.engine' && /venv/bin/python -c 'import networkx, sqlfluff, sqlparse'",
"hooks":{"guard":"SQLLINEAGE_VERIF","enable":"no hooks: contracts are sidecar files under /verif/contracts; the repository source is read from the working tree on every run, never instrumented","baseline_off_cmd":"cd /repo && /venv/bin/python -m pytest -ra -q -p no:cacheprovider --timeout=900 --continue-on-collection-errors","source_commits":[],"add_only":True},
"engines":[{"name":"pyvc","path":"/verif/pyvc","serves_properties":[c['property_id'] for c in checks],"kind_free_text":"contract-based deductive verification: ast -> verification conditions over the real source of each function under a sidecar contract (pre/post/raises/frame/loop invariants/stable frame), discharged by z3; refute mode (bounded unrolling) for counter-models; native replay on the real code"}],
"checks":checks,
"notes":"exit codes of ./check: 0 held, 1 violation (VIOLATION line), 2 undecided (never a VIOLATION line), 3 checker fault. Fixes to /repo are 'fix:' commits listed in known_findings.json.",
"not_applicable":na}
json.dump(m,open(os.path.join(ROOT,'MANIFEST.json'),'w'),indent=1)
print(len(checks),'claimed',len(na),'n/a')
