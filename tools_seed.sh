#!/bin/sh
# tools_seed.sh <prop> <n> <srcdir>: confirm a candidate mutant (demo passes without / fails with; suite unchanged) and store it under seeded/
PROP="$1"; N="$2"; SRC="$3"
ID="${PROP}-m${N}"
mkdir -p /tmp/scr
D=$(mktemp -d /tmp/scr/seedXXXXXX)
git -C /repo worktree add -q --detach "$D" HEAD
cp "$SRC/demo$N.py" "$D/demo_seed.py"
( cd "$D" && PYTHONPATH="$D" /venv/bin/python demo_seed.py > "$D.clean.out" 2>&1 ); rc_clean=$?
( cd "$D" && git apply "$SRC/mutant$N.diff" ); rc_apply=$?
( cd "$D" && PYTHONPATH="$D" /venv/bin/python demo_seed.py > "$D.mut.out" 2>&1 ); rc_mut=$?
( cd "$D" && /venv/bin/python -m pytest -q -p no:cacheprovider --timeout=900 2>&1 | tail -1 ) > "$D.suite.out"
SUITE=$(cat "$D.suite.out")
echo "$ID apply=$rc_apply demo_clean=$rc_clean demo_mutant=$rc_mut suite: $SUITE"
if [ "$rc_apply" = 0 ] && [ "$rc_clean" = 0 ] && [ "$rc_mut" != 0 ] && echo "$SUITE" | grep -q "4 failed, 425 passed"; then
  mkdir -p /verif/seeded/$ID
  cp "$SRC/mutant$N.diff" /verif/seeded/$ID/patch.diff
  cp "$SRC/demo$N.py" /verif/seeded/$ID/demo.py
  cp "$SRC/mutant$N.txt" /verif/seeded/$ID/description.txt 2>/dev/null
  python3 - "$ID" "$PROP" "$rc_clean" "$rc_mut" "$SUITE" <<'PY'
import json, sys
i, p, rc, rm, suite = sys.argv[1:6]
desc = open(f"/verif/seeded/{i}/description.txt").read() if __import__("os").path.exists(f"/verif/seeded/{i}/description.txt") else ""
json.dump({"id": i, "property": p, "author": "independent sub-agent given only the property text and a scratch worktree",
  "needs_to_manifest": desc.strip()[:1500],
  "confirmed": {"patch_applies_to": "repo HEAD at time of seeding", "demo_exit_without_patch": int(rc), "demo_exit_with_patch": int(rm), "suite_with_patch": suite.strip(),
                "how": "tools_seed.sh: scratch worktree of /repo HEAD; demo run before and after `git apply`; full pytest suite with the patch"},
  "detected_by": None}, open(f"/verif/seeded/{i}/meta.json", "w"), indent=1)
PY
  echo "  stored /verif/seeded/$ID"
fi
git -C /repo worktree remove --force "$D"; rm -f "$D".*.out
