"""for-loops (invariant rule / exact unrolling / bounded unrolling) and comprehensions."""
import ast

import z3

from . import sorts as S
from .sorts import V
from .state import And, Not, Or, OutsideSubset, Raised
from .values import (
    SV,
    SV_NONE,
    Facts,
    TAny,
    TDict,
    TInt,
    TList,
    TSet,
    TTuple,
    box,
    strip_opt,
    sv_bool,
    sv_dict,
    sv_int,
    sv_list,
    sv_set,
    sv_tuple,
    sv_v,
)


class Plan:
    """How an iterable hands out its elements.

    static : items (python list of SV)                                         -- exact unrolling
    seq    : n (z3 Int), get(st, i) -> (st, SV)                               -- ordered, index-addressed
    setlike: vars (z3 consts of sort V), mem (z3 Bool over vars), decode(st) -> (st, SV), key (V term over vars)
             -- unordered and repetition free: the element order is adversarial
    """

    def __init__(self, kind, **kw):
        self.kind = kind
        self.__dict__.update(kw)


def make_plan(engine, st, it):
    k = it.kind
    if k == "tuple":
        yield st, Plan("static", items=list(it.t))
    elif k == "list":
        ln, arr = it.t
        elem = it.ty.elem if isinstance(it.ty, TList) else TAny
        n = z3.simplify(ln)
        if z3.is_int_value(n) and n.as_long() <= 16:
            items = []
            for i in range(n.as_long()):
                st, u = engine.unboxed(st, z3.simplify(arr[i]), elem)
                items.append(u)
            yield st, Plan("static", items=items)
        else:
            src_set = it.origin[1] if (it.origin is not None and it.origin[0] == "set") else None

            def get(s, i, arr=arr, elem=elem, src_set=src_set):
                if src_set is not None:
                    # an enumeration of a set: the element at any valid index is a member (ground instance)
                    s = s.with_facts([z3.simplify(src_set[arr[i]])])
                return engine.unboxed(s, arr[i], elem)

            yield st, Plan("seq", n=ln, get=get)
    elif k == "set":
        elem = it.ty.elem if isinstance(it.ty, TSet) else TAny
        ps = S.pair_set_body(it.t)
        if ps is not None:
            # a set of pairs: two bound variables (relation form) instead of one pair-valued variable
            a, b, body = ps
            yield st, Plan("setlike", vars=[a, b], mem=body, decode=lambda s: engine.unboxed(s, V.pair(a, b), elem), key=V.pair(a, b))
        else:
            x = S.fresh("el", V)
            yield st, Plan("setlike", vars=[x], mem=it.t[x], decode=lambda s: engine.unboxed(s, x, elem), key=x)
    elif k == "dict":
        x = S.fresh("key", V)
        kt = it.ty.k if isinstance(it.ty, TDict) else TAny
        yield st, Plan("setlike", vars=[x], mem=it.t[0][x], decode=lambda s: engine.unboxed(s, x, kt), key=x)
    elif k == "starargs":
        yield from make_plan(engine, st, it.t)
    elif k == "v":
        inner = strip_opt(it.ty)
        if isinstance(inner, (TList, TSet, TDict, TTuple)):
            st1, u = engine.unboxed(st, it.t, inner)
            yield from make_plan(engine, st1, u)
        else:
            from .values import TTupleVar

            if isinstance(inner, TTupleVar):
                b = V.bid(it.t)
                yield from make_plan(engine, st, sv_list(S.unb_list_len(b), S.unb_list_arr(b), inner.elem))
            else:
                raise OutsideSubset(f"iteration over {it.ty}")
    elif k == "view":
        yield from view_plan(engine, st, it.t)
    elif k == "genexp":
        for st1, l in genexp_to(engine, st, it, "list"):
            if isinstance(l, Raised):
                yield st1, l
            else:
                yield from make_plan(engine, st1, l)
    else:
        raise OutsideSubset(f"iteration over {k}")


def view_plan(engine, st, d):
    name = d["name"]
    if "plan" in d:
        yield from d["plan"](engine, st)
    elif name == "range":
        lo, hi, step = d["lo"], d["hi"], d["step"]
        stp = z3.simplify(step)
        if not z3.is_int_value(stp) or stp.as_long() <= 0:
            raise OutsideSubset("range with non-positive or symbolic step")
        kk = stp.as_long()
        n = z3.If(hi > lo, (hi - lo + kk - 1) / kk, 0)
        n = z3.simplify(n)
        if z3.is_int_value(n) and n.as_long() <= 16:
            yield st, Plan("static", items=[sv_int(z3.simplify(lo + i * kk)) for i in range(n.as_long())])
        else:
            yield st, Plan("seq", n=n, get=lambda s, i: (s, sv_int(lo + i * kk)))
    elif name == "enumerate":
        start = d.get("start")
        s0 = engine.as_int(start) if start is not None else z3.IntVal(0)
        for st1, p in make_plan(engine, st, d["src"]):
            if isinstance(p, Raised):
                yield st1, p
            elif p.kind == "static":
                yield st1, Plan("static", items=[sv_tuple([sv_int(z3.simplify(s0 + i)), it]) for i, it in enumerate(p.items)])
            elif p.kind == "seq":

                def get(s, i, p=p):
                    s2, u = p.get(s, i)
                    return s2, sv_tuple([sv_int(s0 + i), u])

                yield st1, Plan("seq", n=p.n, get=get)
            else:
                # enumerate(<unordered>): the members in an arbitrary fixed order, numbered
                for st2, p2 in _keys_as_list_plan(engine, st1, p):

                    def get2(s, i, p2=p2):
                        s2, u = p2.get(s, i)
                        return s2, sv_tuple([sv_int(s0 + i), u])

                    yield st2, Plan("seq", n=p2.n, get=get2)
    elif name == "dict_items":
        dct = d["dict"]
        x = S.fresh("key", V)
        kt = dct.ty.k if isinstance(dct.ty, TDict) else TAny
        vt = dct.ty.v if isinstance(dct.ty, TDict) else TAny

        def decode(s):
            s, a = engine.unboxed(s, x, kt)
            s, b = engine.unboxed(s, dct.t[1][x], vt)
            return s, sv_tuple([a, b])

        yield st, Plan("setlike", vars=[x], mem=dct.t[0][x], decode=decode, key=x)
    elif name == "dict_values":
        x = S.fresh("key", V)
        vt = d["ty"].v if isinstance(d["ty"], TDict) else TAny
        yield st, Plan("setlike", vars=[x], mem=d["dom"][x], decode=lambda s: engine.unboxed(s, d["map"][x], vt), key=x)
    else:
        raise OutsideSubset(f"iteration over view {name}")


def assigned_names(nodes):
    out = set()
    for n in nodes:
        for sub in ast.walk(n):
            if isinstance(sub, ast.Name) and isinstance(sub.ctx, ast.Store):
                out.add(sub.id)
            elif isinstance(sub, ast.NamedExpr):
                out.add(sub.target.id)
    return out


MUTATING_METHODS = {
    "append", "add", "update", "pop", "clear", "setdefault", "extend", "insert", "remove", "discard", "popitem", "sort", "reverse",
    "add_node", "add_edge", "remove_node", "remove_edge", "add_nodes_from", "add_edges_from", "remove_nodes_from", "remove_edges_from",
    "intersection_update", "difference_update", "symmetric_difference_update",
}


def mutated_locals(nodes):
    """locals that are the receiver of a mutating method call or of a subscript / attribute store"""
    out = set()
    for n in nodes:
        for sub in ast.walk(n):
            if isinstance(sub, ast.Call) and isinstance(sub.func, ast.Attribute) and sub.func.attr in MUTATING_METHODS:
                base = sub.func.value
                while isinstance(base, (ast.Attribute, ast.Subscript)):
                    base = base.value
                if isinstance(base, ast.Name):
                    out.add(base.id)
            if isinstance(sub, (ast.Subscript, ast.Attribute)) and isinstance(sub.ctx, ast.Store):
                base = sub.value
                while isinstance(base, (ast.Attribute, ast.Subscript)):
                    base = base.value
                if isinstance(base, ast.Name):
                    out.add(base.id)
            if isinstance(sub, ast.AugAssign) and isinstance(sub.target, ast.Name):
                out.add(sub.target.id)
    return out


# ------------------------------------------------------------------------------------------------
# for statement
# ------------------------------------------------------------------------------------------------
def exec_for(engine, n, st):
    from .engine import BREAK, CONTINUE, NORMAL, Outcome

    for st1, it in engine.eval(n.iter, st):
        if isinstance(it, Raised):
            yield st1, Outcome("raise", it)
            continue
        for st2, plan in make_plan(engine, st1, it):
            if isinstance(plan, Raised):
                yield st2, Outcome("raise", plan)
            elif plan.kind == "static":
                yield from _unroll_static(engine, n, st2, plan.items, 0)
            else:
                spec = engine.loop_spec(n, st2)
                if spec is not None and engine.mode == "prove" and spec.unroll is not None:
                    yield from _unroll_exact(engine, n, st2, plan, spec)
                elif spec is not None and engine.mode == "prove":
                    yield from _invariant_rule(engine, n, st2, plan, spec)
                elif engine.mode == "refute" or getattr(engine, "allow_bounded_loops", False):
                    engine.bounded_loops = getattr(engine, "bounded_loops", 0) + 1
                    yield from _unroll_bounded(engine, n, st2, plan)
                else:
                    raise OutsideSubset(f"loop at line {n.lineno} of {st2.frame.fq or st2.frame.module.name} has no invariant")


def _after_loop(engine, n, st, broke):
    from .engine import NORMAL

    if broke or not n.orelse:
        yield st, NORMAL
    else:
        yield from engine.exec_block(n.orelse, st)


def _unroll_static(engine, n, st, items, idx):
    if idx == len(items):
        yield from _after_loop(engine, n, st, False)
        return
    for st1, e in engine.assign_to(n.target, items[idx], st):
        if isinstance(e, Raised):
            from .engine import Outcome

            yield st1, Outcome("raise", e)
            continue
        for st2, out in engine.exec_block(n.body, st1):
            if out.kind in ("normal", "continue"):
                yield from _unroll_static(engine, n, st2, items, idx + 1)
            elif out.kind == "break":
                yield from _after_loop(engine, n, st2, True)
            else:
                yield st2, out


def _unroll_exact(engine, n, st, plan, spec):
    """Exact unrolling justified by an OBLIGATION that the iterable has at most K elements (no invariant needed)."""
    K = spec.unroll
    fq = st.frame.fq or st.frame.func.fq
    ordinal = engine.loop_ordinal(n, st)
    if plan.kind == "seq":
        goal = plan.n <= K
    else:
        # no K+1 pairwise distinct members
        insts = []
        conds = []
        keys = []
        for i in range(K + 1):
            fv = [S.fresh("m", V) for _ in plan.vars]
            sub = list(zip(plan.vars, fv))
            insts.extend(fv)
            conds.append(z3.substitute(plan.mem, *sub))
            keys.append(z3.substitute(plan.key, *sub))
        distinct = [keys[i] != keys[j] for i in range(K + 1) for j in range(i + 1, K + 1)]
        goal = z3.ForAll(insts, Not(And(*(conds + distinct))))
    engine.oblige(st, goal, f"{fq}:loop{ordinal}:at_most_{K}_elements", kind="loop-bound", func=fq, clause=f"loop{ordinal}.at_most_{K}_elements", props=_cprops(engine, fq, f"loop{ordinal}"))
    saved = engine.unroll
    engine.unroll = K
    try:
        results = list(_unroll_bounded(engine, n, st.assume(goal), plan))
    finally:
        engine.unroll = saved
    yield from results


def _unroll_bounded(engine, n, st, plan):
    """refute mode: exactly k iterations for k = 0..K (the iterable is assumed to have exactly k elements)"""
    K = engine.unroll
    if plan.kind == "seq":
        for k in range(K + 1):
            stk = st.assume(plan.n == k)
            if not engine.feasible(stk):
                continue
            items = []
            for i in range(k):
                stk, u = plan.get(stk, z3.IntVal(i))
                items.append(u)
            yield from _unroll_static(engine, n, stk, items, 0)
    else:
        for k in range(K + 1):
            stk = st
            picks = []
            items = []
            for i in range(k):
                fresh_vars = [S.fresh("pick", V) for _ in plan.vars]
                sub = list(zip(plan.vars, fresh_vars))
                mem = z3.substitute(plan.mem, *sub)
                key = z3.substitute(plan.key, *sub)
                stk = stk.assume(mem, *[key != p for p in picks])
                picks.append(key)
                stk, u = _decode_with(engine, plan, stk, sub)
                items.append(u)
            # no other element
            allv = plan.vars
            stk = stk.assume(z3.ForAll(allv, z3.Implies(plan.mem, Or(*[plan.key == p for p in picks]))) if picks else z3.ForAll(allv, Not(plan.mem)))
            if not engine.feasible(stk):
                continue
            yield from _unroll_static(engine, n, stk, items, 0)


def _decode_with(engine, plan, st, sub):
    """decode an element of a setlike plan for the instantiation `sub` of its bound variables"""
    nfacts = len(st.facts)
    st1, u = plan.decode(st)
    u = subst_sv(u, sub)
    # facts produced by decode mention the plan's own variables: re-instantiate them
    new = [z3.substitute(f, *sub) for f in st1.facts[nfacts:]]
    return st.with_facts(new), u


def subst_sv(sv, sub):
    k = sv.kind
    if k in ("int", "bool", "str", "v", "set"):
        return SV(k, z3.substitute(sv.t, *sub), sv.ty, sv.origin)
    if k in ("list", "dict", "graph"):
        return SV(k, tuple(z3.substitute(t, *sub) for t in sv.t), sv.ty, sv.origin)
    if k == "tuple":
        return SV(k, [subst_sv(i, sub) for i in sv.t], sv.ty, sv.origin)
    if k == "view":
        d = dict(sv.t)
        if "subst" in d:
            return SV(k, d["subst"](sub), sv.ty)
        return sv
    return sv


def _havoc_heap(engine, st, spec, pre_st):
    """havoc the heap locations named by the loop's modifies clause"""
    fields = set()
    c = engine.current_contract
    extra = list(c.interfere) if (c is not None and c.interfere and engine.verifying == st.frame.fq) else []
    for loc in list(spec.modifies) + [l for l in extra if l not in spec.modifies]:
        if loc.startswith("*."):
            fld = loc[2:]
            st = st.with_heap(fld, S.fresh("Hloop_" + fld, S.MapS))
            fields.add(fld)
            continue
        if loc.startswith("fresh."):
            # only objects allocated since the loop was entered: H' = \o. alive_entry[o] ? H[o] : anything
            fld = loc[6:]
            o = S.fresh("o", V)
            arr = engine.heap_arr(st, fld)
            st = st.with_heap(fld, z3.Lambda([o], z3.If(engine.alive(pre_st)[o], arr[o], S.fresh("Hfresh_" + fld, S.MapS)[o])))
            fields.add(fld)
            continue
        expr, fld = loc.rsplit(".", 1)
        from .spec import spec_value

        o = spec_value(engine, expr, pre_st)
        arr = engine.heap_arr(st, fld)
        st = st.with_heap(fld, z3.Store(arr, o.t, S.fresh("hloop_" + fld, V)))
        fields.add(fld)
    return st, fields


def _invariant_rule(engine, n, st, plan, spec):
    from .engine import NORMAL, Outcome
    from .spec import spec_bool

    ordinal = engine.loop_ordinal(n, st)
    fq = st.frame.fq or st.frame.func.fq
    mods = assigned_names(n.body + [n.target]) | {m for m in mutated_locals(n.body) if m in st.env and st.env[m].kind in ("list", "set", "dict", "graph")}
    mods = {m for m in mods if m in st.env}
    entry = st

    def inv_env(stx, i=None, done=None, cur=None):
        env = {}
        if plan.kind == "seq":
            env["_i"] = sv_int(i)
            env["_n"] = sv_int(plan.n)
        else:
            env["_done"] = sv_set(done, TAny)
            x = plan.vars
            env["_all"] = sv_set(z3.Lambda(plan.vars, plan.mem) if len(plan.vars) == 1 else z3.Lambda([S.fresh("p", V)], z3.BoolVal(False)), TAny)
        if cur is not None:
            env["_x"] = cur
        return env

    def havoc(stx, tag):
        for m in sorted(mods):
            stx = stx.set(m, engine.fresh_like(stx.env[m], f"{m}_{tag}"))
        stx, fields = _havoc_heap(engine, stx, spec, entry)
        if any(l.startswith("fresh.") for l in spec.modifies) or spec.allocates:
            # the loop may allocate: the set of live objects grows arbitrarily
            al0 = engine.alive(entry)
            al = S.fresh("ALIVE_" + tag, S.SetS)
            o = S.fresh("o", V)
            stx = stx.with_ghost("alive", al).with_facts([z3.ForAll([o], z3.Implies(al0[o], al[o]))])
        return stx, fields

    # 1. initiation
    if plan.kind == "seq":
        env0 = inv_env(st, i=z3.IntVal(0))
    else:
        env0 = inv_env(st, done=S.EMPTY_SET)
    for name, text in spec.inv.items():
        g, stg = spec_bool(engine, text, st, extra=env0, loop_entry=entry)
        engine.oblige(stg, g, f"{fq}:loop{ordinal}:inv.{name}:init", kind="loop-init", func=fq, clause=f"loop{ordinal}.inv.{name}.init", props=_cprops(engine, fq, f"loop{ordinal}"))

    # 2. preservation
    sth, fields = havoc(st, "it")
    if plan.kind == "seq":
        i = S.fresh("_i", S.Int)
        sth = sth.assume(0 <= i, i < plan.n)
        envi = inv_env(sth, i=i)
        sth, cur = plan.get(sth, i)
        key = None
    else:
        done = S.fresh("_done", S.SetS)
        fresh_vars = [S.fresh("cur", V) for _ in plan.vars]
        sub = list(zip(plan.vars, fresh_vars))
        mem = z3.substitute(plan.mem, *sub)
        key = z3.substitute(plan.key, *sub)
        allv = plan.vars
        sth = sth.assume(mem, Not(done[key]), z3.ForAll(allv, z3.Implies(done[plan.key], plan.mem)))
        envi = inv_env(sth, done=done)
        sth, cur = _decode_with(engine, plan, sth, sub)
    for name, text in spec.inv.items():
        g, sth = spec_bool(engine, text, sth, extra=envi, loop_entry=entry)
        sth = sth.assume(g)
    iter_start = sth
    if engine.feasible(sth):
        for st1, e in engine.assign_to(n.target, cur, sth):
            if isinstance(e, Raised):
                yield st1, Outcome("raise", e)
                continue
            for st2, out in engine.exec_block(n.body, st1):
                if out.kind in ("normal", "continue"):
                    _check_undeclared_heap(engine, sth, st2, fields, n, fq, spec, entry)
                    if plan.kind == "seq":
                        envn = inv_env(st2, i=i + 1)
                    else:
                        envn = inv_env(st2, done=z3.Store(done, key, z3.BoolVal(True)))
                    for name, text in spec.inv.items():
                        g, stg = spec_bool(engine, text, st2, extra=envn, loop_entry=entry)
                        engine.oblige(stg, g, f"{fq}:loop{ordinal}:inv.{name}:preserved:{len(engine.obligs)}", kind="loop-preserve", func=fq, clause=f"loop{ordinal}.inv.{name}.preserved", props=_cprops(engine, fq, f"loop{ordinal}"))
                    for name, text in spec.step.items():
                        g, stg = spec_bool(engine, text, st2, extra=envn, loop_entry=entry, iter_start=iter_start)
                        engine.oblige(stg, g, f"{fq}:loop{ordinal}:step.{name}:{len(engine.obligs)}", kind="loop-step", func=fq, clause=f"loop{ordinal}.step.{name}", props=_cprops(engine, fq, f"loop{ordinal}.step.{name}"))
                elif out.kind == "break":
                    _check_undeclared_heap(engine, sth, st2, fields, n, fq, spec, entry)
                    yield from _after_loop(engine, n, st2, True)
                else:
                    yield st2, out

    # 3. exit
    stx, _ = havoc(st, "ex")
    if plan.kind == "seq":
        envx = inv_env(stx, i=plan.n)
        stx = stx.assume(plan.n >= 0)
    else:
        envx = inv_env(stx, done=z3.Lambda(plan.vars, plan.mem) if len(plan.vars) == 1 else _all_keys(plan))
    for name, text in spec.inv.items():
        g, stx = spec_bool(engine, text, stx, extra=envx, loop_entry=entry)
        stx = stx.assume(g)
    if engine.feasible(stx):
        yield from _after_loop(engine, n, stx, False)


def _cprops(engine, fq, clause):
    c = engine.contracts.get(fq)
    return c.props_of(clause) if c is not None else ()


def _all_keys(plan):
    inv = _invert(plan.key, list(plan.vars))
    if inv is not None:
        y, g, sub = inv
        return z3.Lambda([y], And(g, z3.substitute(plan.mem, *sub)))
    y = S.fresh("y", V)
    return z3.Lambda([y], z3.Exists(plan.vars, And(plan.mem, plan.key == y)))


def _check_undeclared_heap(engine, before, after, declared, n, fq, spec=None, entry=None):
    fresh_only = set()
    if spec is not None:
        exact = {l.rsplit(".", 1)[1] for l in spec.modifies if not l.startswith("fresh.")}
        fresh_only = {l[6:] for l in spec.modifies if l.startswith("fresh.")} - exact
    for fld, arr in after.heap.items():
        if fld in fresh_only:
            old = before.heap.get(fld)
            if old is not None and not arr.eq(old):
                o = S.fresh("fo", V)
                goal = z3.ForAll([o], z3.Implies(engine.alive(entry)[o], arr[o] == old[o]))
                engine.oblige(after, goal, f"{fq}:loop-frame.{fld}:{len(engine.obligs)}", kind="loop-frame", func=fq, clause=f"loop-frame.{fld}", props=_cprops(engine, fq, "loop-frame"))
            continue
        if fld in declared:
            continue
        old = before.heap.get(fld)
        if old is None:
            old = engine.heap0.get(fld)
        if old is None or not arr.eq(old):
            raise OutsideSubset(f"loop at line {n.lineno} of {fq} writes heap field '{fld}' that its modifies clause does not list")
    a0, a1 = before.ghost.get("alive"), after.ghost.get("alive")
    # allocation inside a loop body is fine: fresh objects are unreachable from the pre-state


# ------------------------------------------------------------------------------------------------
# comprehensions
# ------------------------------------------------------------------------------------------------
def comprehension(engine, n, st, kind, env=None, frame=None):
    if len(n.generators) != 1:
        yield from _nested_comprehension(engine, n, st, kind)
        return
    gen = n.generators[0]
    if gen.is_async:
        raise OutsideSubset("async comprehension")
    for st1, it in engine.eval(gen.iter, st):
        if isinstance(it, Raised):
            yield st1, it
            continue
        for st2, plan in make_plan(engine, st1, it):
            if isinstance(plan, Raised):
                yield st2, plan
            elif plan.kind == "static":
                yield from _comp_static(engine, n, gen, st2, kind, plan.items, 0, [])
            else:
                yield from _comp_symbolic(engine, n, gen, st2, kind, plan)


def _nested_comprehension(engine, n, st, kind):
    raise OutsideSubset("comprehension with several generators")


def _comp_static(engine, n, gen, st, kind, items, idx, acc):
    if idx == len(items):
        saved_env = st.env
        if kind == "list":
            st1, l = engine.make_list(st, acc)
            yield st1, l
        elif kind == "set":
            f = Facts()
            arr = S.EMPTY_SET
            for v in acc:
                arr = z3.Store(arr, box(v, f), z3.BoolVal(True))
            yield st.with_facts(f), sv_set(arr, acc[0].ty if acc else TAny)
        else:
            f = Facts()
            dom, mp = S.EMPTY_SET, S.NONE_MAP
            for k, v in acc:
                kb = box(k, f)
                dom = z3.Store(dom, kb, z3.BoolVal(True))
                mp = z3.Store(mp, kb, box(v, f))
            yield st.with_facts(f), sv_dict(dom, mp, acc[0][0].ty if acc else TAny, acc[0][1].ty if acc else TAny)
        return
    outer_env = st.env
    for st1, e in engine.assign_to(gen.target, items[idx], st):
        if isinstance(e, Raised):
            yield st1.copy(env=outer_env), e
            continue
        for st2, keep in _conds(engine, gen.ifs, st1):
            if isinstance(keep, Raised):
                yield st2.copy(env=outer_env), keep
            elif not keep:
                yield from _comp_static(engine, n, gen, st2.copy(env=outer_env), kind, items, idx + 1, acc)
            elif kind == "dict":
                for st3, kv in engine.eval_list([n.key, n.value], st2):
                    if isinstance(kv, Raised):
                        yield st3.copy(env=outer_env), kv
                    else:
                        yield from _comp_static(engine, n, gen, st3.copy(env=outer_env), kind, items, idx + 1, acc + [(kv[0], kv[1])])
            else:
                for st3, v in engine.eval(n.elt, st2):
                    if isinstance(v, Raised):
                        yield st3.copy(env=outer_env), v
                    else:
                        yield from _comp_static(engine, n, gen, st3.copy(env=outer_env), kind, items, idx + 1, acc + [v])


def _conds(engine, ifs, st):
    """yield (state, True|False|Raised) : all conditions true?"""
    if not ifs:
        yield st, True
        return
    for st1, r in engine.eval(ifs[0], st):
        if isinstance(r, Raised):
            yield st1, r
            continue
        for st2, c in engine.truthy(st1, r):
            if isinstance(c, Raised):
                yield st2, c
                continue
            for st3, side in engine.fork(st2, c):
                if side:
                    yield from _conds(engine, ifs[1:], st3)
                else:
                    yield st3, False


def _elt_is_key(n, gen):
    """the element expression is (a tuple of) the loop variable(s) themselves: handled by set inversion"""
    def names(t):
        if isinstance(t, ast.Name):
            return [t.id]
        if isinstance(t, (ast.Tuple, ast.List)):
            out = []
            for e in t.elts:
                r = names(e)
                if r is None:
                    return None
                out.extend(r)
            return out
        return None

    tv = names(gen.target)
    ev = names(n.elt) if hasattr(n, "elt") else None
    return tv is not None and ev is not None and set(ev) <= set(tv)


def _merged_conds_and_elt(engine, n, gen, st, kind):
    """Evaluate `if` conditions and the element expression(s) once, symbolically, merging paths.
    returns (cond z3 Bool, [elt SVs], raise_cond, st_with_facts)"""
    base = st
    # conditions
    results = []
    for st1, keep in _conds(engine, gen.ifs, st):
        if isinstance(keep, Raised):
            results.append((st1, keep))
        else:
            results.append((st1, sv_bool(keep)))
    cond_sv, rc1, st = engine.merge_results(results, base)
    cond = cond_sv.t if cond_sv is not None else z3.BoolVal(False)
    stc = st.assume(cond)
    nodes = [n.key, n.value] if kind == "dict" else [n.elt]
    elts = []
    rcs = [rc1]
    for nd in nodes:
        sv, rc, stc2 = engine.eval_merged(nd, stc)
        rcs.append(And(cond, rc))
        if sv is None:
            raise OutsideSubset("comprehension element always raises")
        elts.append(sv)
        stc = stc2
    st = st.with_facts(stc.facts[len(st.facts):])
    return cond, elts, Or(*rcs), st


def _invert(term, vars_):
    """if term is built from pair constructors over distinct bound variables, return (guard(y), substitution(y))"""
    y = S.fresh("y", V)
    sub = []
    guards = []
    seen = set()

    def go(t, acc):
        for v in vars_:
            if t.eq(v):
                if v.get_id() in seen:
                    return False
                seen.add(v.get_id())
                sub.append((v, acc))
                return True
        if z3.is_app(t) and t.decl().eq(V.pair):
            guards.append(V.is_pair(acc))
            return go(t.arg(0), V.fst(acc)) and go(t.arg(1), V.snd(acc))
        return False

    if go(term, y) and len(seen) == len(vars_):
        return y, And(*guards), sub
    return None


ENGINE_REF = [None]


def _quantify_facts(st_before, st_after, vars_, guard):
    """facts produced under binders mention the bound constants: generalise them"""
    new = st_after.facts[len(st_before.facts):]
    out = []
    ids = {v.get_id() for v in vars_}
    for f in new:
        if _mentions(f, ids):
            q = z3.ForAll(vars_, z3.Implies(guard, f))
            if ENGINE_REF[0] is not None and _is_typing_fact(f):
                ENGINE_REF[0].droppable_facts[q.get_id()] = q
            out.append(q)
        else:
            out.append(f)
    return st_before.with_facts(out)


_TYPING_DECLS = {"is", "inj_set", "inj_list", "inj_dict", "unb_set", "unb_list_len", "unb_list_arr", "unb_dict_dom", "unb_dict_map", "box_kind", "cls_of", "oid", "bid", "Select", "ALIVE0", "=", "and", "or", "not", "=>", ">=", "<=", "Int"}


def _is_typing_fact(f):
    """a well-typedness fact produced by unboxing (testers, box round trips, class membership, aliveness)"""
    txt = f.sexpr()
    return ("(_ is " in txt or "inj_" in txt or "cls_of" in txt or "ALIVE0" in txt or "box_kind" in txt) and "Exists" not in txt and "exists" not in txt and "any_order" not in txt and "sorted_by" not in txt and "filter_" not in txt


def _mentions(f, ids):
    todo = [f]
    seen = set()
    while todo:
        t = todo.pop()
        if t.get_id() in seen:
            continue
        seen.add(t.get_id())
        if t.get_id() in ids:
            return True
        if z3.is_app(t):
            todo.extend(t.children())
        elif z3.is_quantifier(t):
            todo.append(t.body())
    return False


def _keys_as_list_plan(engine, st, plan, cond_fn=None):
    """an unordered plan -> (state, ordered plan): enumerate the keys of its members in an arbitrary but fixed order
    (the enumeration is a function of the member set, so evaluating the same expression twice gives the same list)"""
    from .builtins_model import to_list

    inv = _invert(plan.key, list(plan.vars))
    if inv is None:
        raise OutsideSubset("enumeration of an unordered collection whose element key is not invertible")
    y, g, sub = inv
    keyset = sv_set(z3.Lambda([y], And(g, z3.substitute(plan.mem, *sub))), TAny)
    if len(plan.vars) == 1 and z3.is_app(plan.mem) and plan.mem.decl().kind() == z3.Z3_OP_SELECT and plan.mem.num_args() == 2 and plan.mem.arg(1).eq(plan.vars[0]) and plan.key.eq(plan.vars[0]):
        keyset = sv_set(plan.mem.arg(0), TAny)  # membership in an explicit set term: enumerate that very set
    for st1, l in to_list(engine, st, keyset):
        ln, arr = l.t

        def get(s, i, arr=arr, sub=sub, y=y):
            inst = [(v, z3.substitute(t, (y, arr[i]))) for v, t in sub]
            s = s.with_facts([z3.simplify(keyset.t[arr[i]])])
            return _decode_with(engine, plan, s, inst)

        yield st1, Plan("seq", n=ln, get=get)


def _comp_symbolic(engine, n, gen, st, kind, plan):
    if kind == "list" and plan.kind == "setlike" and not gen.ifs and not _elt_is_key(n, gen):
        # [f(x) for x in <unordered>]: enumerate the members (arbitrary fixed order), then map f
        for st1, p2 in _keys_as_list_plan(engine, st, plan):
            yield from _comp_symbolic(engine, n, gen, st1, kind, p2)
        return
    outer_env = st.env
    if plan.kind == "seq":
        i = S.fresh("ci", S.Int)
        vars_ = [i]
        guard = And(0 <= i, i < plan.n)
        st_in, cur = plan.get(st, i)
    else:
        vars_ = list(plan.vars)
        guard = plan.mem
        st_in, cur = plan.decode(st)
    st_in = st_in.assume(guard)
    bound = list(engine.assign_to(gen.target, cur, st_in))
    if len(bound) != 1 or isinstance(bound[0][1], Raised):
        raise OutsideSubset("comprehension target binding forks or raises")
    st_b = bound[0][0]
    cond, elts, rc, st_e = _merged_conds_and_elt(engine, n, gen, st_b, kind)
    # leave the binder scope: drop the guard from pc, generalise facts
    st_out = _quantify_facts(st, st_e, vars_, guard).copy(env=outer_env)
    rc = z3.simplify(rc)
    if not z3.is_false(rc):
        raising = z3.Exists(vars_, And(guard, rc))
        for st_r, side in engine.fork(st_out, raising):
            if side:
                yield st_r, Raised(getattr(engine, "last_raise_cls", None) or "<unknown>", where=f"comprehension at line {n.lineno}")
            else:
                yield from _comp_result(engine, n, st_r, kind, plan, vars_, guard, cond, elts, st_e)
        return
    yield from _comp_result(engine, n, st_out, kind, plan, vars_, guard, cond, elts, st_e)


def _comp_result(engine, n, st, kind, plan, vars_, guard, cond, elts, st_e):
    f = Facts()
    boxed = [box(e, f) for e in elts]
    if f.items:
        ids = {v.get_id() for v in vars_}
        st = st.with_facts([z3.ForAll(vars_, z3.Implies(And(guard, cond), x)) if _mentions(x, ids) else x for x in f.items])
    ety = elts[0].ty
    full = And(guard, cond)
    if kind == "set" or (kind == "list" and plan.kind == "setlike"):
        inv = _invert(boxed[0], vars_) if plan.kind == "setlike" else None
        if inv is not None:
            y, g, sub = inv
            body = And(g, z3.substitute(full, *sub))
            res = sv_set(z3.Lambda([y], body), ety)
        else:
            y = S.fresh("y", V)
            res = sv_set(z3.Lambda([y], z3.Exists(vars_, And(full, boxed[0] == y))), ety)
            if kind == "list":
                raise OutsideSubset("list comprehension over an unordered collection with a non-injective element expression")
        if kind == "set":
            yield st, res
        else:
            from .builtins_model import to_list

            yield from to_list(engine, st, res)
        return
    if kind == "list":
        i = vars_[0]
        if z3.is_true(z3.simplify(cond)):
            yield st, sv_list(plan.n, z3.Lambda([i], boxed[0]), ety)
            return
        # filtered list: length / index maps are FUNCTIONS of (source length, the condition as an index->Bool array), so
        # that evaluating the same comprehension twice (code and specification) gives the same terms
        cond = canon_bool(cond, [i])
        # one uninterpreted function family per (canonical) condition text: the free symbols of the condition are constants
        # of this verification run, so equal text means equal condition; no array-valued argument (z3: incomplete)
        import hashlib

        key = hashlib.md5(z3.substitute(cond, (i, z3.Const("_cv0", i.sort()))).sexpr().encode()).hexdigest()[:12]
        # every free constant of the condition is an explicit argument (a constant that is later generalised by an
        # enclosing quantifier must not be hidden inside the function name)
        free, seen = {}, set()
        stack = [cond]
        while stack:
            e = stack.pop()
            if e.get_id() in seen:
                continue
            seen.add(e.get_id())
            if z3.is_quantifier(e):
                stack.append(e.body())
            elif z3.is_app(e):
                if e.num_args() == 0 and e.decl().kind() == z3.Z3_OP_UNINTERPRETED and not e.eq(i):
                    free[e.decl().name()] = e
                stack.extend(e.children())
        fargs = [free[k] for k in sorted(free)]
        fs = [a.sort() for a in fargs]
        f_len = z3.Function("filter_len!" + key, *fs, S.Int, S.Int)
        f_src = z3.Function("filter_src!" + key, *fs, S.Int, S.Int, S.Int)
        f_inv = z3.Function("filter_inv!" + key, *fs, S.Int, S.Int, S.Int)
        m = f_len(*fargs, plan.n)
        src = lambda jj: f_src(*fargs, plan.n, jj)
        inv = lambda ii: f_inv(*fargs, plan.n, ii)
        j, k2 = S.fresh("j", S.Int), S.fresh("k", S.Int)
        at = lambda t, idx: z3.substitute(t, (i, idx))
        # beta-reduced forms (no select-on-lambda: z3's array theory gives up on those with "incomplete (theory array)")
        arr = z3.Lambda([j], at(boxed[0], src(j)))
        facts = [
            m >= 0,
            m <= z3.If(plan.n >= 0, plan.n, 0),
            z3.ForAll([j], z3.Implies(And(0 <= j, j < m), And(0 <= src(j), src(j) < plan.n, at(cond, src(j)), inv(src(j)) == j))),
            z3.ForAll([j, k2], z3.Implies(And(0 <= j, j < k2, k2 < m), src(j) < src(k2))),
            z3.ForAll([i], z3.Implies(And(0 <= i, i < plan.n, cond), And(0 <= inv(i), inv(i) < m, src(inv(i)) == i))),
        ]
        yield st.with_facts(facts), sv_list(m, arr, ety)
        return
    if kind == "dict":
        kb, vb = boxed
        inv = _invert(kb, vars_) if plan.kind == "setlike" else None
        vty = elts[1].ty
        if inv is not None:
            y, g, sub = inv
            dom = z3.Lambda([y], And(g, z3.substitute(full, *sub)))
            mp = z3.Lambda([y], z3.substitute(vb, *sub))
            yield st, sv_dict(dom, mp, ety, vty)
            return
        # general: the value stored under a key is that of SOME element with this key (which one depends on order)
        y = S.fresh("y", V)
        dom = z3.Lambda([y], z3.Exists(vars_, And(full, kb == y)))
        mp = S.fresh("dmap", S.MapS)
        wits = [z3.Function(S.fresh_name("dwit"), V, v.sort()) for v in vars_]
        sub = [(v, w(y)) for v, w in zip(vars_, wits)]
        fact = z3.ForAll([y], z3.Implies(dom[y], And(z3.substitute(full, *sub), z3.substitute(kb, *sub) == y, mp[y] == z3.substitute(vb, *sub))))
        yield st.with_facts([fact]), sv_dict(dom, mp, ety, vty)
        return
    raise OutsideSubset(f"comprehension kind {kind}")


def canon_bool(t, bound, max_atoms=8):
    """canonical propositional form (DNF over the sorted atoms) of a Boolean term: two evaluations of the same source
    condition (forking code path vs merged specification path) become the SAME term, so that uninterpreted functions of the
    condition (filter_len ...) coincide without array extensionality.  Equivalence preserving; falls back to simplify()."""
    import itertools

    atoms = {}

    def collect(e):
        if z3.is_true(e) or z3.is_false(e):
            return
        if z3.is_and(e) or z3.is_or(e) or z3.is_not(e) or z3.is_implies(e) or (z3.is_app_of(e, z3.Z3_OP_ITE) and z3.is_bool(e)) or (z3.is_eq(e) and z3.is_bool(e.arg(0))) or (z3.is_distinct(e) and z3.is_bool(e.arg(0))):
            for c in e.children():
                collect(c)
        else:
            atoms[e.get_id()] = e

    t = z3.simplify(t)
    collect(t)
    ren = [(v, z3.Const("_cv%d" % k, v.sort())) for k, v in enumerate(bound)]
    A = sorted(atoms.values(), key=lambda a: z3.substitute(a, *ren).sexpr())
    if not A or len(A) > max_atoms:
        return t
    rows = []
    for bits in itertools.product([False, True], repeat=len(A)):
        v = z3.simplify(z3.substitute(t, *[(a, z3.BoolVal(b)) for a, b in zip(A, bits)]))
        if z3.is_true(v):
            rows.append(bits)
        elif not z3.is_false(v):
            return t
    if not rows:
        return z3.BoolVal(False)
    terms = [And(*[a if b else Not(a) for a, b in zip(A, bits)]) if len(A) > 1 else (A[0] if bits[0] else Not(A[0])) for bits in rows]
    return Or(*terms) if len(terms) > 1 else terms[0]


def genexp_to(engine, st, g, kind):
    n, env, frame = g.t
    st1 = st.copy(env=env, frame=frame)
    for st2, r in comprehension(engine, n, st1, kind):
        yield st2.copy(env=st.env, frame=st.frame), r


def genexp_quant(engine, st, g, is_any):
    """any(genexp) / all(genexp)"""
    n, env, frame = g.t
    gen = n.generators[0]
    if len(n.generators) != 1:
        raise OutsideSubset("any/all with nested generators")
    st0 = st.copy(env=env, frame=frame)

    def back(s):
        return s.copy(env=st.env, frame=st.frame)

    for st1, it in engine.eval(gen.iter, st0):
        if isinstance(it, Raised):
            yield back(st1), it
            continue
        for st2, plan in make_plan(engine, st1, it):
            if isinstance(plan, Raised):
                yield back(st2), plan
                continue
            if plan.kind == "static":
                yield from _quant_static(engine, n, gen, st2, plan.items, 0, is_any, back)
                continue
            if plan.kind == "seq":
                i = S.fresh("qi", S.Int)
                vars_ = [i]
                guard = And(0 <= i, i < plan.n)
                st_in, cur = plan.get(st2, i)
            else:
                vars_ = list(plan.vars)
                guard = plan.mem
                st_in, cur = plan.decode(st2)
            st_in = st_in.assume(guard)
            bound = list(engine.assign_to(gen.target, cur, st_in))
            if len(bound) != 1 or isinstance(bound[0][1], Raised):
                raise OutsideSubset("generator target binding forks")
            st_b = bound[0][0]
            results = []
            for st3, keep in _conds(engine, gen.ifs, st_b):
                if isinstance(keep, Raised):
                    results.append((st3, keep))
                elif not keep:
                    results.append((st3, sv_bool(not is_any)))
                else:
                    for st4, v in engine.eval(n.elt, st3):
                        if isinstance(v, Raised):
                            results.append((st4, v))
                            continue
                        for st5, c in engine.truthy(st4, v):
                            results.append((st5, c if isinstance(c, Raised) else sv_bool(c)))
            sv, rc, st_e = engine.merge_results(results, st_b)
            st_out = _quantify_facts(st2, st_e, vars_, guard)
            if not z3.is_false(z3.simplify(rc)):
                raise OutsideSubset("any/all whose element test may raise")
            q = z3.Exists(vars_, And(guard, sv.t)) if is_any else z3.ForAll(vars_, z3.Implies(guard, sv.t))
            yield back(st_out), sv_bool(q)


def _quant_static_spec(engine, n, gen, st, items, is_any, back):
    """specification mode: any/all over a fixed list is a disjunction/conjunction of merged truth values (no forking)"""
    from .spec import _bool_of

    terms = []
    cur = st
    for it in items:
        bound = list(engine.assign_to(gen.target, it, cur))
        if len(bound) != 1 or isinstance(bound[0][1], Raised):
            raise OutsideSubset("generator target binding forks")
        stb = bound[0][0]
        c = z3.BoolVal(True)
        for cnd in gen.ifs:
            b, stb = _bool_of(engine, cnd, stb)
            c = And(c, b)
        v, stb = _bool_of(engine, n.elt, stb.assume(c))
        cur = cur.with_facts(stb.facts[len(cur.facts):])
        terms.append(And(c, v) if is_any else z3.Implies(c, v))
    yield back(cur), sv_bool(Or(*terms) if is_any else And(*terms))


def _quant_static(engine, n, gen, st, items, idx, is_any, back):
    if engine.spec_ctx and idx == 0:
        yield from _quant_static_spec(engine, n, gen, st, items, is_any, back)
        return
    if idx == len(items):
        yield back(st), sv_bool(not is_any)
        return
    for st1, e in engine.assign_to(gen.target, items[idx], st):
        if isinstance(e, Raised):
            yield back(st1), e
            continue
        for st2, keep in _conds(engine, gen.ifs, st1):
            if isinstance(keep, Raised):
                yield back(st2), keep
            elif not keep:
                yield from _quant_static(engine, n, gen, st2, items, idx + 1, is_any, back)
            else:
                for st3, v in engine.eval(n.elt, st2):
                    if isinstance(v, Raised):
                        yield back(st3), v
                        continue
                    for st4, c in engine.truthy(st3, v):
                        if isinstance(c, Raised):
                            yield back(st4), c
                            continue
                        for st5, side in engine.fork(st4, c):
                            if side == is_any:
                                yield back(st5), sv_bool(is_any)
                            else:
                                yield from _quant_static(engine, n, gen, st5, items, idx + 1, is_any, back)
