"""Assumed contract of pathlib / os.path / open on POSIX (DESIGN §3.2 C): an abstract, axiomatised path model.

A pathlib object is an SV of kind 'pathobj' whose payload is the z3 String of its textual form.  All structure is carried by
uninterpreted predicates with GROUND axioms emitted where terms are built:

  p_abs(s)            s is absolute                         has_dd(s)      some part of s is '..'
  lex_under(p, r)     the parts of r are a prefix of the parts of p (purely lexical)
  inside(p, r)        with '.', '..' resolved (no symlinks), p is r or lies under r   -- the property's notion
  p_join(a, b)        a.joinpath(b)        p_parent(s)     p_resolve(s)    p_absolute(s)

Axioms (each is an instance of a fact about POSIX paths; the native C17 harness checks them, bounded, against pathlib):
  J1  p_abs(b)  -> p_join(a, b) == p_norm(b)
  J2 !p_abs(b)  -> lex_under(p_join(a, b), a)  and  has_dd(p_join(a, b)) == (has_dd(a) or has_dd(b))
  D1  has_dd(s) -> '..' occurs in s                         D2  has_dd(p_norm(s)) == has_dd(s), p_abs(p_norm(s)) == s startswith '/'
  R1  lex_under(p, r) and !has_dd(p) -> inside(p, r)         R2  inside(p, p)
  R3  is_relative_to(resolve(p), resolve(r)) == inside(p, r)
  P1  inside(p_parent(p), r) is NOT implied by inside(p, r)  (p may be r itself): no axiom
  S1  strip: x occurs in s.strip(c) -> x occurs in s ;  a one-character c is not a prefix of s.strip(c)
Every open()/iterdir() is recorded in the ghost list 'opened' so that contracts can quantify over what a request touched.
"""
import z3

from . import sorts as S
from .builtins_model import py_strip
from .sorts import V
from .state import And, Not, Or, OutsideSubset, Raised
from .values import SV, SV_NONE, TAny, TStr, sv_bool, sv_list, sv_str, sv_v

p_abs = z3.Function("p_abs", S.Str, S.Bool)
has_dd = z3.Function("has_dotdot_part", S.Str, S.Bool)
lex_under = z3.Function("lex_under", S.Str, S.Str, S.Bool)
inside = z3.Function("inside", S.Str, S.Str, S.Bool)
p_join = z3.Function("p_join", S.Str, S.Str, S.Str)
p_norm = z3.Function("p_norm", S.Str, S.Str)
p_parent = z3.Function("p_parent", S.Str, S.Str)
p_name = z3.Function("p_name", S.Str, S.Str)
p_resolve = z3.Function("p_resolve", S.Str, S.Str)
p_absolute = z3.Function("p_absolute", S.Str, S.Str)
p_exists = z3.Function("p_exists", S.Str, S.Bool)
p_is_dir = z3.Function("p_is_dir", S.Str, S.Bool)
p_rel_to = z3.Function("p_is_relative_to", S.Str, S.Str, S.Bool)
p_children_len = z3.Function("p_children_len", S.Str, S.Int)
p_children = z3.Function("p_children", S.Str, S.SeqS)
path_str_of = z3.Function("path_str_of", V, S.Str)
mk_path = z3.Function("mk_path", S.Str, V)


def pathobj(t):
    return SV("pathobj", t, TAny)


def norm_facts(s):
    n = p_norm(s)
    lit = z3.simplify(s)
    f = [has_dd(n) == has_dd(s), p_abs(n) == z3.PrefixOf(z3.StringVal("/"), s), z3.Implies(has_dd(s), z3.Contains(s, z3.StringVal("..")))]
    if z3.is_string_value(lit):
        txt = lit.as_string()
        f.append(has_dd(s) == z3.BoolVal(".." in txt.split("/")))
    return f


def join_facts(a, b):
    j = p_join(a, b)
    return [
        z3.Implies(p_abs(b), j == b),
        z3.Implies(Not(p_abs(b)), And(lex_under(j, a), has_dd(j) == Or(has_dd(a), has_dd(b)))),
        z3.Implies(And(lex_under(j, a), Not(has_dd(j))), inside(j, a)),
        z3.Implies(has_dd(j), z3.Contains(j, z3.StringVal(".."))),
    ]


def as_path_str(engine, st, x):
    """textual form of a str / pathobj argument (normalised)"""
    if x.kind == "pathobj":
        return st, x.t
    if x.kind == "str":
        t = x.t
        if z3.is_app(t) and t.decl().name() in ("p_join", "p_norm", "p_parent", "p_resolve", "p_absolute", "path_str_of"):
            return st, t  # str(<path object>): already the normalised text of a path
        return st.with_facts(norm_facts(x.t)), p_norm(x.t)
    if x.kind == "v":
        s = V.sval(x.t)
        return st.with_facts(norm_facts(s)), p_norm(s)
    raise OutsideSubset(f"path from {x.kind}")


def new_path(engine, st, args, kwargs, node):
    if len(args) != 1:
        raise OutsideSubset("Path(...) with several arguments")
    x = args[0]
    if x.kind == "v" and x.ty == TAny:
        # Path(<non-str>) raises TypeError
        for st1, ok in engine.fork(st, V.is_str_(x.t)):
            if ok:
                st2, t = as_path_str(engine, st1, x)
                yield st2, pathobj(t)
            else:
                yield st1, Raised("TypeError", where="Path(non-str)")
        return
    st1, t = as_path_str(engine, st, x)
    yield st1, pathobj(t)


def record_open(st, what, path):
    lst = list(st.ghost.get("opened", ()))
    lst.append((what, path))
    return st.with_ghost("opened", tuple(lst))


def m_joinpath(engine, st, recv, args, kwargs, recv_node):
    cur = recv.t
    for a in args:
        st, b = as_path_str(engine, st, a)
        st = st.with_facts(join_facts(cur, b))
        cur = p_join(cur, b)
    yield st, pathobj(cur)


def m_absolute(engine, st, recv, args, kwargs, recv_node):
    yield st, pathobj(p_absolute(recv.t))


def m_resolve(engine, st, recv, args, kwargs, recv_node):
    yield st, pathobj(p_resolve(recv.t))


def m_is_relative_to(engine, st, recv, args, kwargs, recv_node):
    st, o = as_path_str(engine, st, args[0])
    a, b = recv.t, o
    facts = []
    # R3: on resolved paths is_relative_to is the property's containment
    if z3.is_app(a) and a.decl().eq(p_resolve) and z3.is_app(b) and b.decl().eq(p_resolve):
        facts.append(p_rel_to(a, b) == inside(a.arg(0), b.arg(0)))
    yield st.with_facts(facts), sv_bool(p_rel_to(a, b))


def m_exists(engine, st, recv, args, kwargs, recv_node):
    yield st, sv_bool(p_exists(recv.t))


def m_is_dir(engine, st, recv, args, kwargs, recv_node):
    yield st, sv_bool(p_is_dir(recv.t))


def m_iterdir(engine, st, recv, args, kwargs, recv_node):
    st = record_open(st, "listdir", recv.t)
    out = S.fresh("iterdir_outcome", S.Int)
    for cls, code in (("FileNotFoundError", 1), ("NotADirectoryError", 2), ("PermissionError", 3)):
        yield st.assume(out == code), Raised(cls, where="iterdir()")
    n = p_children_len(recv.t)
    yield st.assume(out == 0).with_facts([n >= 0]), SV("list", (n, p_children(recv.t)), __import__("pyvc.values", fromlist=["TList"]).TList(__import__("pyvc.values", fromlist=["TObj"]).TObj("PosixPath")))


def path_attr(engine, st, o, attr):
    if attr == "parent":
        return pathobj(p_parent(o.t))
    if attr == "name":
        return sv_str(p_name(o.t))
    return None


def install(engine):
    mm = engine.method_models
    mm[("pathobj", "joinpath")] = m_joinpath
    mm[("pathobj", "absolute")] = m_absolute
    mm[("pathobj", "resolve")] = m_resolve
    mm[("pathobj", "is_relative_to")] = m_is_relative_to
    mm[("pathobj", "exists")] = m_exists
    mm[("pathobj", "is_dir")] = m_is_dir
    mm[("pathobj", "iterdir")] = m_iterdir
    engine.ext_models["pathlib.Path"] = new_path
    engine.path_attr = path_attr
