"""Contracts (sidecar), specification expressions, verification-condition generation for one function,
and modular use of a callee's contract at a call site."""
import ast

import z3

from . import sorts as S
from .sorts import V
from .state import And, Frame, Not, Or, OutsideSubset, Raised, State
from .values import (
    SV,
    SV_NONE,
    Facts,
    TAny,
    TBool,
    TDict,
    TInt,
    TList,
    TObj,
    TOpt,
    TSet,
    TStr,
    TTuple,
    box,
    parse_type,
    strip_opt,
    sv_bool,
    sv_dict,
    sv_int,
    sv_list,
    sv_set,
    sv_str,
    sv_tuple,
    sv_v,
    unbox,
)


class Contract:
    def __init__(
        self,
        func,
        params=None,
        lets=None,
        requires=None,
        ensures=None,
        raises=None,
        modifies=None,
        loops=None,
        at_calls=True,
        props=(),
        returns=None,
        notes="",
        self_type=None,
        fresh_result=False,
        canary=None,
        inline=(),
        clause_props=None,
        refute_unroll=None,
        assume_only=False,
        pure_function=False,
        stable=None,
        field_types=None,
        interfere=None,
        rely=None,
        graph_node_type=None,
    ):
        self.func = func
        self.params = params or {}
        self.lets = lets or {}
        self.requires = requires if isinstance(requires, dict) else {str(i): r for i, r in enumerate(requires or [])}
        self.ensures = ensures or {}
        self.raises = raises or {}
        self.modifies = modifies or []
        self.loops = loops or {}
        self.at_calls = at_calls
        self.props = tuple(props)
        self.returns = returns
        self.notes = notes
        self.self_type = self_type
        self.fresh_result = fresh_result
        self.canary = canary or {}
        self.inline = set(inline)
        self.clause_props = clause_props or {}
        self.refute_unroll = refute_unroll
        self.assume_only = assume_only  # a trusted (assumed) contract: used at calls, never verified
        self.pure_function = pure_function  # at calls: result is an uninterpreted function of the arguments
        self.stable = stable or {}  # GUARANTEE: must hold across every simple statement (prev() = state before it)
        self.interfere = interfere or []  # heap locations other threads may change between any two statements
        self.graph_node_type = graph_node_type  # class of the nodes of every graph whose nodes the function iterates (checked)
        self.rely = rely or {}  # RELY: what the interference preserves (prev() = state before the interference)

    def props_of(self, clause):
        for pat, ps in self.clause_props.items():
            if clause.startswith(pat):
                return tuple(ps)
        return self.props


SPEC_FUNCS = {"pre_iter", "prev", "old", "implies", "iff", "forall", "exists", "pre_loop", "is_fresh", "unchanged", "typed", "ite", "alive_before", "same_field", "alive"}


class SpecCtx:
    def __init__(self, pre, lets, loop_entry=None, names=(), prev=None, iter_start=None):
        self.pre, self.lets, self.loop_entry = pre, lets, loop_entry
        self.names = set(names)
        self.prev = prev
        self.iter_start = iter_start


def _spec_call(engine, n, st):
    """evaluation of the specification-only functions; returns a generator like Engine.eval"""
    ctx = engine.spec_ctx[-1]
    name = n.func.id
    if name in ("old", "pre_loop", "prev", "pre_iter"):
        base = {"old": ctx.pre, "pre_loop": ctx.loop_entry, "prev": ctx.prev, "pre_iter": ctx.iter_start}[name]
        if base is None:
            raise OutsideSubset(f"{name}() without a {name} state")
        env = dict(base.env)
        for k in ctx.names:
            if k in st.env:
                env[k] = st.env[k]
        sub = st.copy(env=env, heap=base.heap, ghost=base.ghost)
        sv, rc, sub2 = engine.eval_merged(n.args[0], sub)
        if sv is None:
            if not engine.feasible(sub):
                sv = sv_v(S.fresh("vacuous", V), TAny)
            else:
                raise OutsideSubset(f"old() expression always raises: {ast.unparse(n.args[0])}")
        yield st.with_facts(sub2.facts[len(st.facts):]), sv
    elif name == "implies":
        a, st = _bool_of(engine, n.args[0], st)
        b, st2 = _bool_of(engine, n.args[1], st.assume(a))
        yield st.with_facts(st2.facts[len(st.facts):]), sv_bool(z3.Implies(a, b))
    elif name == "iff":
        a, st = _bool_of(engine, n.args[0], st)
        b, st = _bool_of(engine, n.args[1], st)
        yield st, sv_bool(a == b)
    elif name == "ite":
        c, st = _bool_of(engine, n.args[0], st)
        a, _, st = engine.eval_merged(n.args[1], st)
        b, _, st = engine.eval_merged(n.args[2], st)
        yield st, engine.merge_values([(c, a), (Not(c), b)])
    elif name in ("forall", "exists"):
        lam = n.args[0]
        if not isinstance(lam, ast.Lambda):
            raise OutsideSubset("forall/exists expects a lambda")
        types = {k.arg: k.value.value for k in n.keywords}
        vars_, st_in = [], st
        new_names = []
        for p in lam.args.args:
            ty = parse_type(types.get(p.arg, "Any"))
            if ty == TInt:
                c = S.fresh(p.arg, S.Int)
                sv = sv_int(c)
            elif ty == TStr:
                c = S.fresh(p.arg, S.Str)
                sv = sv_str(c)
            else:
                c = S.fresh(p.arg, V)
                f = Facts()
                sv = unbox(c, ty, f, assume_types=False)
            vars_.append(c)
            st_in = st_in.set(p.arg, sv)
            new_names.append(p.arg)
        ctx.names |= set(new_names)
        body, st_b = _bool_of(engine, lam.body, st_in)
        from .loops import _quantify_facts

        st_out = _quantify_facts(st, st_b, vars_, z3.BoolVal(True)).copy(env=st.env)
        q = z3.ForAll(vars_, body) if name == "forall" else z3.Exists(vars_, body)
        yield st_out, sv_bool(q)
    elif name == "is_fresh":
        sv, _, st = engine.eval_merged(n.args[0], st)
        yield st, sv_bool(Not(engine.alive(ctx.pre)[sv.t]))
    elif name == "alive":
        sv, _, st = engine.eval_merged(n.args[0], st)
        yield st, sv_bool(engine.alive(st)[sv.t])
    elif name == "alive_before":
        sv, _, st = engine.eval_merged(n.args[0], st)
        yield st, sv_bool(engine.alive(ctx.pre)[sv.t])
    elif name == "unchanged":
        fld = n.args[0].value
        yield st, sv_bool(engine.heap_arr(st, fld) == engine.heap_arr(ctx.pre, fld))
    elif name == "same_field":
        # same_field("f", obj): obj.f (raw heap cell) is what it was in the pre-state
        fld = n.args[0].value
        sv, _, st = engine.eval_merged(n.args[1], st)
        yield st, sv_bool(engine.heap_arr(st, fld)[sv.t] == engine.heap_arr(ctx.pre, fld)[sv.t])
    elif name == "typed":
        sv, _, st = engine.eval_merged(n.args[0], st)
        ty = parse_type(n.args[1].value)
        if sv is None:  # evaluated under an infeasible hypothesis
            sv = sv_v(S.fresh("vacuous", V), TAny)
        st, b = engine.boxed(st, sv)
        st, u = engine.unboxed(st, b, ty)
        yield st, u
    else:
        raise OutsideSubset(f"spec function {name}")


def _bool_of(engine, node, st):
    """merged boolean value of a spec expression: (z3 Bool, state-with-facts)"""
    results = []
    for st1, r in engine.eval(node, st):
        if isinstance(r, Raised):
            results.append((st1, r))
            continue
        for st2, c in engine.truthy(st1, r):
            results.append((st2, c if isinstance(c, Raised) else sv_bool(c)))
    if not results:
        # evaluated under an infeasible hypothesis (e.g. the consequent of a vacuous implies)
        return z3.BoolVal(True), st
    sv, rc, st2 = engine.merge_results(results, st)
    rc = z3.simplify(rc)
    if sv is None:
        engine.spec_warnings.append(f"spec expression always raises: {ast.unparse(node)}")
        return z3.BoolVal(False), st2
    if not z3.is_false(rc):
        engine.spec_warnings.append(f"spec expression may raise: {ast.unparse(node)}")
        return And(Not(rc), sv.t), st2
    return sv.t, st2


def _parse(text):
    return ast.parse(text.strip(), mode="eval").body


def _spec_state(engine, st, extra, ctx):
    env = dict(st.env)
    for k, v in ctx.lets.items():
        env[k] = v
    if extra:
        env.update(extra)
        ctx.names |= set(extra)
    ctx.names |= set(ctx.lets)
    return st.copy(env=env)


def spec_bool(engine, text, st, extra=None, loop_entry=None, ctx=None, prev=None, iter_start=None):
    """(z3 Bool, state-with-new-facts) for a specification clause evaluated in st"""
    ctx = ctx or engine.fn_ctx
    c2 = SpecCtx(ctx.pre, ctx.lets, loop_entry or ctx.loop_entry, ctx.names, prev=prev, iter_start=iter_start or ctx.iter_start)
    engine.spec_ctx.append(c2)
    try:
        s = _spec_state(engine, st, extra, c2)
        b, s2 = _bool_of(engine, _parse(text), s)
        return b, st.with_facts(s2.facts[len(st.facts):])
    finally:
        engine.spec_ctx.pop()


def spec_value(engine, text, st, extra=None, ctx=None):
    ctx = ctx or engine.fn_ctx
    c2 = SpecCtx(ctx.pre, ctx.lets, ctx.loop_entry, ctx.names)
    engine.spec_ctx.append(c2)
    try:
        s = _spec_state(engine, st, extra, c2)
        sv, rc, s2 = engine.eval_merged(_parse(text), s)
        if sv is None:
            raise OutsideSubset(f"spec value always raises: {text}")
        return sv
    finally:
        engine.spec_ctx.pop()


def spec_value_st(engine, text, st, extra=None, ctx=None):
    ctx = ctx or engine.fn_ctx
    c2 = SpecCtx(ctx.pre, ctx.lets, ctx.loop_entry, ctx.names)
    engine.spec_ctx.append(c2)
    try:
        s = _spec_state(engine, st, extra, c2)
        sv, rc, s2 = engine.eval_merged(_parse(text), s)
        if sv is None:
            raise OutsideSubset(f"spec value always raises: {text}")
        return sv, st.with_facts(s2.facts[len(st.facts):])
    finally:
        engine.spec_ctx.pop()


# ------------------------------------------------------------------------------------------------
# initial state of a function under contract
# ------------------------------------------------------------------------------------------------
def initial_state(engine, c, fi):
    frame = Frame(fi.module, fi, fi.cls, fi.fq)
    st = State(frame=frame)
    a = fi.node.args
    env = {}
    facts = Facts()
    allp = [(p, "pos") for p in a.posonlyargs + a.args] + ([(a.vararg, "var")] if a.vararg else []) + [(p, "kwonly") for p in a.kwonlyargs] + ([(a.kwarg, "kw")] if a.kwarg else [])
    for idx, (p, kind) in enumerate(allp):
        name = p.arg
        if name in c.params:
            ty = parse_type(c.params[name])
        elif idx == 0 and fi.cls is not None and not fi.is_static and kind == "pos":
            ty = TObj(c.self_type or fi.cls.name) if not fi.is_classmethod else None
        elif kind == "var":
            ty = TList(parse_type(p.annotation)) if p.annotation is not None else TList(TAny)
        elif kind == "kw":
            ty = TDict(TStr, parse_type(p.annotation) if p.annotation is not None else TAny)
        elif p.annotation is not None:
            ty = parse_type(p.annotation)
        else:
            ty = TAny
        if ty is None:
            env[name] = SV("class", fi.cls.name)
            continue
        f2, sv = engine.fresh_of_type(ty, name)
        facts.items.extend(f2.items)
        if sv.kind in ("list", "set", "dict") and kind not in ("kw", "var"):
            sv.origin = ("param", name)  # *args / **kwargs are fresh containers of the callee: no caller alias
        env[name] = sv
    st = st.copy(env=env).with_facts(facts)
    return st


def setup_ctx(engine, c, st):
    """evaluate the contract's lets in the pre-state; returns (ctx, state)"""
    ctx = SpecCtx(st, {})
    engine.fn_ctx = ctx
    for name, text in c.lets.items():
        sv, st = spec_value_st(engine, text, st, ctx=ctx)
        ctx.lets[name] = sv
        ctx.pre = st
    ctx.pre = st
    return ctx, st


def parse_modifies(engine, c, pre, ctx):
    """-> dict field -> list of allowed object terms, or None for 'any object'"""
    out = {}
    for loc in c.modifies:
        if loc == "*":
            return None
        if loc.startswith("*."):
            out[loc[2:]] = None
            continue
        if loc.startswith("fresh."):
            continue
        expr, fld = loc.rsplit(".", 1)
        o = spec_value(engine, expr, pre, ctx=ctx)
        if out.get(fld, []) is not None:
            out.setdefault(fld, []).append(o.t)
    return out


def verify_function(engine, c):
    """Symbolically execute the real body of c.func and emit its obligations into engine.obligs.
    Returns a summary dict."""
    fi = engine.repo.func(c.func.split("#")[0])
    if fi is None:
        raise OutsideSubset(f"function {c.func} not found in the repository")
    engine.verifying = fi.fq
    engine.current_contract = c
    engine.spec_ctx = []
    engine.spec_warnings = []
    n_before = len(engine.obligs)
    st = initial_state(engine, c, fi)
    st = st.with_facts(engine.global_facts())
    ctx, st = setup_ctx(engine, c, st)
    for name, text in c.requires.items():
        b, st = spec_bool(engine, text, st, ctx=ctx)
        st = st.assume(b)
    st = st.with_facts(engine.global_facts())
    ctx.pre = st
    if not engine.feasible(st):
        raise OutsideSubset(f"precondition of {c.func} is unsatisfiable (vacuous contract)")
    pre = st
    paths = 0
    fq = c.func
    outcomes = []
    for st1, out in engine.exec_block(fi.node.body, st):
        paths += 1
        outcomes.append(out.kind if out.kind != "raise" else f"raise {out.value.cls}")
        k = paths
        # in postconditions a parameter name denotes the argument's value at entry (parameters are locals: the body may
        # rebind them, and value-semantics containers are rebound by in-place methods)
        param_names = [p.arg for p in fi.node.args.posonlyargs + fi.node.args.args + fi.node.args.kwonlyargs] + [x.arg for x in (fi.node.args.vararg, fi.node.args.kwarg) if x is not None]
        entry_params = {nm: pre.env[nm] for nm in param_names if nm in pre.env}
        if out.kind in ("normal", "return"):
            result = out.value if out.kind == "return" else SV_NONE
            extra = dict(entry_params, result=result)
            for name, text in list(c.ensures.items()) + [("canary." + n, t) for n, t in c.canary.items()]:
                g, stg = spec_bool(engine, text, st1, extra=extra, ctx=ctx)
                engine.oblige(stg, g, f"{fq}:ensures.{name}:path{k}", kind="canary" if name.startswith("canary.") else "ensures", func=fq, clause=f"ensures.{name}", props=c.props_of(f"ensures.{name}"))
            for ename, ent in c.raises.items():
                if ent.get("exact") and ename != "*":
                    w, stg = spec_bool(engine, ent["when"], pre.copy(pc=st1.pc, facts=st1.facts), ctx=ctx)
                    engine.oblige(stg, Not(w), f"{fq}:raises.{ename}.exact:path{k}", kind="raises-exact", func=fq, clause=f"raises.{ename}.exact", props=c.props_of(f"raises.{ename}"))
            _frame_obligations(engine, c, fq, pre, st1, ctx, k)
        elif out.kind == "raise":
            exc = out.value
            ent, ename = _match_raises(engine, c, exc.cls)
            if ent is None:
                engine.oblige(st1, z3.BoolVal(False), f"{fq}:raises.unexpected.{exc.cls}:path{k}", kind="unexpected-raise", func=fq, clause=f"raises.unexpected.{exc.cls}", props=c.props_of("raises.unexpected"), where=str(exc.where))
            else:
                if ent.get("when") is not None:
                    w, stg = spec_bool(engine, ent["when"], pre.copy(pc=st1.pc, facts=st1.facts), ctx=ctx)
                    engine.oblige(stg, w, f"{fq}:raises.{ename}.when:path{k}", kind="raises-when", func=fq, clause=f"raises.{ename}.when", props=c.props_of(f"raises.{ename}"))
                for name, text in ent.get("ensures", {}).items():
                    g, stg = spec_bool(engine, text, st1, extra=dict(entry_params), ctx=ctx)
                    engine.oblige(stg, g, f"{fq}:raises.{ename}.ensures.{name}:path{k}", kind="raises-ensures", func=fq, clause=f"raises.{ename}.ensures.{name}", props=c.props_of(f"raises.{ename}.ensures.{name}"))
                if not ent.get("no_frame"):
                    _frame_obligations(engine, c, fq, pre, st1, ctx, k)
        else:
            raise OutsideSubset(f"{out.kind} escaping function body")
    engine.verifying = None
    return {"func": fq, "paths": paths, "outcomes": outcomes, "obligations": len(engine.obligs) - n_before, "spec_warnings": list(engine.spec_warnings), "sha": fi.sha(), "span": fi.span(), "file": fi.module.path}


def _match_raises(engine, c, cls):
    if cls in c.raises:
        return c.raises[cls], cls
    for ename, ent in c.raises.items():
        if ename == "*":
            continue
        if engine.is_exc_subclass(cls, ename) is True:
            return ent, ename
    if "*" in c.raises:
        return c.raises["*"], "*"
    return None, None


def _frame_obligations(engine, c, fq, pre, post, ctx, k):
    allowed = parse_modifies(engine, c, pre, ctx)
    if allowed is None:
        return
    alive0 = engine.alive(pre)
    interfered = {loc.rsplit(".", 1)[1] for loc in c.interfere}
    for fld, arr in post.heap.items():
        if fld in interfered:
            continue  # shared with other threads: the per-statement guarantee (stable.*) is the frame
        old = pre.heap.get(fld)
        if old is None:
            old = engine.heap0.get(fld)
        if old is not None and arr.eq(old):
            continue
        objs = allowed.get(fld, [])
        if objs is None:
            continue
        o = S.fresh("fo", V)
        if old is None:
            old = engine.heap_arr(pre, fld)
        goal = z3.ForAll([o], z3.Implies(And(alive0[o], *[o != a for a in objs]), arr[o] == old[o]))
        engine.oblige(post, goal, f"{fq}:frame.{fld}:path{k}", kind="frame", func=fq, clause=f"frame.{fld}", props=c.props_of(f"frame.{fld}"))


def _pure_call(engine, c, fi, env, pre, st, ctx):
    """a pure function under contract is an uninterpreted function of its arguments (plus its ensures)"""
    a = fi.node.args
    names = [p.arg for p in a.posonlyargs + a.args]
    boxed = []
    for nm in names:
        if env[nm].kind == "class":
            from .values import class_value

            boxed.append(class_value(env[nm].t))
            continue
        pre, b = engine.boxed(pre, env[nm])
        boxed.append(b)
    uf = z3.Function("pure!" + fi.fq, *([V] * len(boxed) + [V]))
    ufr = z3.Function("pure_raises!" + fi.fq, *([V] * len(boxed) + [S.Bool]))
    rty = c.returns or (fi.node.returns if fi.node.returns is not None else None)
    res_v = uf(*boxed) if boxed else z3.Const("pure!" + fi.fq, V)
    pre2, result = engine.unboxed(pre, res_v, parse_type(rty) if rty is not None else TAny)
    back = lambda s: s.copy(env=st.env, frame=st.frame)
    if engine.spec_depth > 0:
        yield back(pre2), result
        return
    rc = ufr(*boxed) if boxed else z3.BoolVal(False)
    if c.raises:
        r_st = pre.assume(rc)
        if engine.feasible(r_st):
            yield back(r_st), Raised("<unknown>", where=f"call {fi.qualname}")
    post = pre2.assume(Not(rc)) if c.raises else pre2
    for name, text in c.ensures.items():
        g, post = spec_bool(engine, text, post, extra={"result": result}, ctx=ctx)
        post = post.assume(g)
    yield back(post), result


# ------------------------------------------------------------------------------------------------
# modular call
# ------------------------------------------------------------------------------------------------
def call_by_contract(engine, c, fi, args, kwargs, st, node):
    from .calls import bind_params

    env = {}
    frame = Frame(fi.module, fi, fi.cls, fi.fq)
    st = bind_params(engine, fi.node.args, args, kwargs, env, st, frame, fi)
    for p in fi.node.args.args:
        want = c.params.get(p.arg) or (p.annotation if p.annotation is not None else None)
        if want is not None and p.arg in env and env[p.arg].kind == "v" and env[p.arg].ty == TAny:
            st, u = engine.unboxed(st, env[p.arg].t, parse_type(want))
            env[p.arg] = u
    caller_ctx = getattr(engine, "fn_ctx", None)
    caller_fq = st.frame.fq or (st.frame.func.fq if st.frame.func else st.frame.module.name)
    pre = st.copy(env=env, frame=frame)
    saved_ctx_stack = engine.spec_ctx
    in_spec = 1 if saved_ctx_stack else 0
    engine.spec_depth += in_spec
    engine.spec_ctx = []
    try:
        ctx = SpecCtx(pre, {})
        for name, text in c.lets.items():
            sv, pre = spec_value_st(engine, text, pre, ctx=ctx)
            ctx.lets[name] = sv
            ctx.pre = pre
        ctx.pre = pre
        cur_c = engine.current_contract
        for name, text in c.requires.items():
            b, pre = spec_bool(engine, text, pre, ctx=ctx)
            if not in_spec:  # a call inside a specification expression is not a call site of the code
                engine.oblige(pre, b, f"{caller_fq}:call.{fi.qualname}:requires.{name}:{len(engine.obligs)}", kind="call-requires", func=caller_fq, clause=f"call.{fi.qualname}.requires.{name}", props=(cur_c.props_of("call") if cur_c else ()))
            pre = pre.assume(b)
        ctx.pre = pre
        if c.pure_function:
            yield from _pure_call(engine, c, fi, env, pre, st, ctx)
            return
        # havoc the callee's frame
        post = pre
        for loc in c.modifies:
            if loc == "*":
                raise OutsideSubset(f"call of {fi.fq} whose contract modifies everything")
            if loc.startswith("*."):
                fld = loc[2:]
                post = post.with_heap(fld, S.fresh("Hc_" + fld, S.MapS))
                continue
            if loc.startswith("fresh."):
                continue
            expr, fld = loc.rsplit(".", 1)
            o = spec_value(engine, expr, pre, ctx=ctx)
            post = post.with_heap(fld, z3.Store(engine.heap_arr(post, fld), o.t, S.fresh("hc_" + fld, V)))
        # exceptional exits
        normal_extra = []
        for ename, ent in ([] if in_spec else c.raises.items()):
            if ent.get("when") is None:
                w = z3.BoolVal(True)
                pre_w = pre
            else:
                w, pre_w = spec_bool(engine, ent["when"], pre, ctx=ctx)
            if ent.get("exact"):
                normal_extra.append(Not(w))
            str_ = (pre if ent.get("pure", True) else post).with_facts(pre_w.facts[len(pre.facts):]).assume(w)
            if ent.get("maybe") is not None:
                mb, _ = spec_bool(engine, ent["maybe"], pre, ctx=ctx)
                str_ = str_.assume(mb)
            if engine.feasible(str_):
                for name, text in ent.get("ensures", {}).items():
                    g, str_ = spec_bool(engine, text, str_, ctx=ctx)
                    str_ = str_.assume(g)
                cls = ename if ename != "*" else "<unknown>"
                yield str_.copy(env=st.env, frame=st.frame), Raised(cls, where=f"call {fi.qualname}")
        # normal exit
        rty = c.returns or (fi.node.returns if fi.node.returns is not None else None)
        if fi.node.name == "__init__":
            result = SV_NONE
        else:
            fresh = bool(c.fresh_result)
            f2, result = engine.fresh_of_type(parse_type(rty) if rty is not None else TAny, "ret_" + fi.node.name, alive=not fresh)
            post = post.with_facts(f2)
            if fresh and result.kind == "v":
                al = engine.alive(post)
                post = post.with_facts([Not(al[result.t])])
                post = post.with_ghost("alive", z3.Store(al, result.t, z3.BoolVal(True)))
        post = post.assume(*normal_extra)
        for name, text in c.ensures.items():
            try:
                g, post = spec_bool(engine, text, post, extra={"result": result}, ctx=ctx)
            except OutsideSubset as e:
                if "unresolved name" in str(e):
                    # the clause talks about a LOCAL of the callee (checked when the callee is verified): a caller cannot
                    # state it, so it learns nothing from it (sound: fewer assumptions)
                    continue
                raise
            # inside a specification the call is part of a merged term: what the contract says about its (fresh) result
            # must survive the merge, so it is recorded as a fact instead of a branch condition
            post = post.with_facts([g]) if in_spec else post.assume(g)
        if engine.feasible(post):
            yield post.copy(env=st.env, frame=st.frame), result
    finally:
        engine.spec_ctx = saved_ctx_stack
        engine.spec_depth -= in_spec
        if caller_ctx is not None:
            engine.fn_ctx = caller_ctx
