"""K3 site disciplines found by scanning the AST of every module on every run (DESIGN §2.3)."""
import ast

NORMALISED_ATTRS = {"raw_name", "alias", "uri"}
NORMALISER = "escape_identifier_name"
SUBQUERY_FAMILY = {"SubQuery", "SqlFluffSubQuery", "SqlParseSubQuery"}
ALIAS_TAKERS = {"Table", "SqlFluffTable", "SqlParseTable"} | SUBQUERY_FAMILY
# a re-wrapped sub-query whose alias is never looked up: the MERGE handler of the sqlparse analyzer wires source columns to
# `direct_source` by object (src_col.parent = direct_source), no qualifier is resolved against this alias
LABEL_ONLY_ALIAS_SITES = {
    ("sqllineage.core.parser.sqlparse.analyzer", "SqlParseLineageAnalyzer._extract_from_dml_merge", "sq.alias"): "the alias of the re-wrapped MERGE source is a label only: columns are attached to the object, never resolved through the alias (probe: quoted mixed-case alias gives the same lineage)",
}
MODEL_CTORS = {"Column", "Table", "Schema", "Path", "SqlFluffTable", "SqlParseTable", "SqlFluffColumn", "SqlParseColumn"}


def _functions(module):
    for fi in module.funcs.values():
        yield fi.qualname, fi.node
    for ci in module.classes.values():
        for fi in list(ci.methods.values()) + list(ci.setters.values()):
            yield fi.qualname, fi.node


def _is_normalised_expr(e, norm_names):
    """syntactically an already-normalised value: a model field, str(<x>) of a model, a call of the normaliser, or a
    local bound to one of those"""
    if isinstance(e, ast.Attribute) and e.attr in NORMALISED_ATTRS:
        return f"field .{e.attr}"
    if isinstance(e, ast.Call) and isinstance(e.func, ast.Name) and e.func.id == NORMALISER:
        return "result of " + NORMALISER
    if isinstance(e, ast.Name) and e.id in norm_names:
        return f"local `{e.id}` bound to {norm_names[e.id]}"
    if isinstance(e, ast.IfExp):
        # normalised on at least one branch: on that branch the consumer normalises a second time
        for br in (e.body, e.orelse):
            why = _is_normalised_expr(br, norm_names)
            if why:
                return why + " (on one branch of a conditional expression)"
    if isinstance(e, ast.BoolOp):
        for br in e.values:
            why = _is_normalised_expr(br, norm_names)
            if why:
                return why + " (operand of and/or)"
    return None


def _joins_normalised_parts(e):
    """`sep.join(<comprehension whose element is a call of the normaliser>)`, possibly on one branch of a conditional"""
    if isinstance(e, ast.IfExp):
        return _joins_normalised_parts(e.body) or _joins_normalised_parts(e.orelse)
    if isinstance(e, ast.Call) and isinstance(e.func, ast.Attribute) and e.func.attr == "join" and e.args:
        a = e.args[0]
        if isinstance(a, (ast.ListComp, ast.GeneratorExp)):
            return _is_normalised_expr(a.elt, {}) is not None
    return False


def exactly_once(repo, pid="C16"):
    """every identifier is normalised exactly once: the normaliser and the model constructors require RAW text"""
    out = []
    for m in sorted(repo.modules.values(), key=lambda x: x.name):
        if m.name in repo.ghost:
            continue
        for qual, fn in _functions(m):
            # one-level dataflow: locals assigned from normalised expressions / loop variables over .source_columns
            norm = {}
            joined = {}
            for sub in ast.walk(fn):
                if isinstance(sub, ast.Assign) and len(sub.targets) == 1 and isinstance(sub.targets[0], ast.Name):
                    why = _is_normalised_expr(sub.value, {})
                    if why:
                        norm[sub.targets[0].id] = why
                    elif _joins_normalised_parts(sub.value):
                        joined[sub.targets[0].id] = "joined from per-part normalised segments"
                if isinstance(sub, (ast.For, ast.comprehension)):
                    it = sub.iter
                    src = ast.unparse(it)
                    tgt = sub.target
                    if "source_columns" in src and ".pop(" not in src or "_session_metadata" in src:
                        for n in ast.walk(tgt):
                            if isinstance(n, ast.Name):
                                norm[n.id] = "element of a normalised collection (" + src[:40] + ")"
                    if ".pop(" in src and "self.raw_name" in src:
                        for n in ast.walk(tgt):
                            if isinstance(n, ast.Name):
                                norm[n.id] = "may be the default (self.raw_name, None), already normalised"
            for sub in ast.walk(fn):
                if not isinstance(sub, ast.Call):
                    continue
                callee = sub.func.id if isinstance(sub.func, ast.Name) else (sub.func.attr if isinstance(sub.func, ast.Attribute) else None)
                # alias arguments: Table / SubQuery constructors and their `of` factories normalise the alias they are given
                owner = sub.func.value.id if isinstance(sub.func, ast.Attribute) and isinstance(sub.func.value, ast.Name) else None
                fam = callee if callee in ALIAS_TAKERS else (owner if callee == "of" and owner in ALIAS_TAKERS else None)
                if fam:
                    al = [kw.value for kw in sub.keywords if kw.arg == "alias"]
                    if not al and fam in SUBQUERY_FAMILY and callee == "of" and len(sub.args) >= 2:
                        al = [sub.args[1]]
                    if not al and fam in SUBQUERY_FAMILY and callee != "of" and len(sub.args) >= 3:
                        al = [sub.args[2]]
                    for a_ in al:
                        why = _is_normalised_expr(a_, norm)
                        shown = (owner + "." if callee == "of" else "") + callee
                        nm = f"{pid}:site:{m.name}:{qual}:{shown}(alias={ast.unparse(a_)})"
                        if why and (m.name, qual, ast.unparse(a_)) in LABEL_ONLY_ALIAS_SITES:
                            out.append({"name": nm, "status": "assumed", "detail": f"alias argument is {why}; allow-listed: " + LABEL_ONLY_ALIAS_SITES[(m.name, qual, ast.unparse(a_))], "clause": "normalised_exactly_once", "backend": "syntactic scan (allow-list)", "kind": "K3-site"})
                        elif why:
                            out.append({"name": nm, "status": "refuted", "detail": f"second normalisation: alias argument is {why}", "clause": "normalised_exactly_once", "backend": "syntactic scan", "kind": "K3-site"})
                        else:
                            out.append({"name": nm, "status": "proved", "detail": "alias argument is raw text or None", "clause": "normalised_exactly_once", "backend": "syntactic scan", "kind": "K3-site"})
                if callee != NORMALISER and callee not in MODEL_CTORS:
                    continue
                if not sub.args:
                    continue
                arg = sub.args[0]
                why = _is_normalised_expr(arg, norm)
                name = f"{pid}:site:{m.name}:{qual}:{callee}({ast.unparse(arg)})"
                if why is None and isinstance(arg, ast.Name) and arg.id in joined:
                    why = joined[arg.id]
                if why:
                    out.append({"name": name, "status": "refuted", "detail": f"second normalisation: argument is {why}", "clause": "normalised_exactly_once", "backend": "syntactic scan", "kind": "K3-site"})
                else:
                    out.append({"name": name, "status": "proved", "detail": "argument is raw text (segment/token text, user or catalog input) or a literal", "clause": "normalised_exactly_once", "backend": "syntactic scan", "kind": "K3-site"})
    return out


def call_time_defaults(repo, pid="C14"):
    """no constructor / factory of the model layer has a default argument evaluated at import (a Call or a mutable literal)"""
    out = []
    for m in sorted(repo.modules.values(), key=lambda x: x.name):
        if m.name in repo.ghost or not (m.name.endswith("models") or m.name.endswith("holders")):
            continue
        for qual, fn in _functions(m):
            a = fn.args
            pos = a.posonlyargs + a.args
            pairs = list(zip(pos[len(pos) - len(a.defaults):], a.defaults)) + [(p, d) for p, d in zip(a.kwonlyargs, a.kw_defaults) if d is not None]
            for p, d in pairs:
                bad = isinstance(d, (ast.Call, ast.Dict, ast.List, ast.Set))
                out.append({"name": f"{pid}:site:{m.name}:{qual}:default {p.arg}={ast.unparse(d)}", "status": "refuted" if bad else "proved", "detail": "default evaluated once at import: ignores configuration set later" if bad else "constant default", "clause": "defaults_are_evaluated_at_call_time", "backend": "syntactic scan", "kind": "K3-site"})
    # every Table-family construction either passes a schema built by Schema(...) in the same activation or relies on the
    # call-time default of Table.__init__ (proved by its contract)
    for m in sorted(repo.modules.values(), key=lambda x: x.name):
        if m.name in repo.ghost:
            continue
        for qual, fn in _functions(m):
            schema_locals = set()
            for sub in ast.walk(fn):
                if isinstance(sub, ast.Assign) and len(sub.targets) == 1 and isinstance(sub.targets[0], ast.Name):
                    txt = ast.unparse(sub.value)
                    if "Schema(" in txt:
                        schema_locals.add(sub.targets[0].id)
            for sub in ast.walk(fn):
                if isinstance(sub, ast.Call):
                    callee = sub.func.id if isinstance(sub.func, ast.Name) else None
                    if callee in ("Table", "SqlFluffTable", "SqlParseTable"):
                        r = repo.resolve_global(m, callee)
                        if r is None or r[0] != "class":
                            continue  # another library's Table (sqlalchemy)
                        sch = sub.args[1] if len(sub.args) > 1 else next((k.value for k in sub.keywords if k.arg == "schema"), None)
                        if sch is None:
                            ok, why = True, "schema omitted: Table.__init__ builds the default at call time (its contract)"
                        elif isinstance(sch, ast.Call) and ast.unparse(sch.func) == "Schema":
                            ok, why = True, "Schema(...) built in place"
                        elif isinstance(sch, ast.Name) and (sch.id in schema_locals or sch.id == "schema"):
                            ok, why = True, f"`{sch.id}` built by Schema(...) in the same activation / passed through"
                        else:
                            ok, why = False, f"schema argument `{ast.unparse(sch)}` is not built by Schema(...) in this activation"
                        out.append({"name": f"{pid}:site:{m.name}:{qual}:{callee}({', '.join(ast.unparse(x) for x in sub.args)})", "status": "proved" if ok else "refuted", "detail": why, "clause": "table_schema_is_built_at_call_time", "backend": "syntactic scan", "kind": "K3-site"})
    return out


def raise_sites(repo, pid="C10"):
    """every `raise` of the package raises a subclass of SQLLineageException (abstract stubs: NotImplementedError, unreachable
    because only overriding subclasses are instantiated -- assumed); extractor dispatch does not depend on subclass order"""
    out = []
    parent = {}
    ex_mod = repo.modules.get("sqllineage.exceptions")
    for c in (ex_mod.classes.values() if ex_mod else []):
        parent[c.name] = c.bases[0] if c.bases else "Exception"

    def derives(name):
        seen = set()
        while name and name not in seen:
            if name == "SQLLineageException":
                return True
            seen.add(name)
            name = parent.get(name)
        return False

    for m in sorted(repo.modules.values(), key=lambda x: x.name):
        if m.name in repo.ghost or m.name.endswith("cli"):
            continue
        for qual, fn in _functions(m):
            for sub in ast.walk(fn):
                if isinstance(sub, ast.Raise) and sub.exc is not None:
                    e = sub.exc.func if isinstance(sub.exc, ast.Call) else sub.exc
                    nm = e.id if isinstance(e, ast.Name) else (e.attr if isinstance(e, ast.Attribute) else None)
                    name = f"{pid}:site:{m.name}:{qual}:raise {nm}"
                    if nm is None:
                        out.append({"name": name, "status": "refuted", "detail": "raise of a computed expression", "clause": "raises_only_library_exceptions", "backend": "syntactic scan", "kind": "K3-site"})
                    elif derives(nm):
                        out.append({"name": name, "status": "proved", "detail": "subclass of SQLLineageException", "clause": "raises_only_library_exceptions", "backend": "syntactic scan", "kind": "K3-site"})
                    elif nm == "NotImplementedError" and fn.body and len([s for s in fn.body if not (isinstance(s, ast.Expr) and isinstance(s.value, ast.Constant))]) == 1:
                        out.append({"name": name, "status": "assumed", "detail": "abstract stub: only overriding subclasses are instantiated (assumed unreachable)", "clause": "raises_only_library_exceptions", "backend": "syntactic scan", "kind": "K3-site"})
                    elif nm == "PermissionError" and m.name.endswith("drawing"):
                        out.append({"name": name, "status": "proved", "detail": "caught by the WSGI app's own handler (404), never escapes analysis", "clause": "raises_only_library_exceptions", "backend": "syntactic scan", "kind": "K3-site"})
                    else:
                        out.append({"name": name, "status": "refuted", "detail": f"raises {nm}, not one of the library's own exception types", "clause": "raises_only_library_exceptions", "backend": "syntactic scan", "kind": "K3-site"})
    # SUPPORTED_STMT_TYPES pairwise disjoint
    sup = {}
    for c in repo.subclasses("BaseExtractor"):
        a = c.attrs.get("SUPPORTED_STMT_TYPES")
        if a is not None and isinstance(a, ast.List) and c.name != "BaseExtractor":
            sup[c.name] = [e.value for e in a.elts if isinstance(e, ast.Constant)]
    names = sorted(sup)
    for i, a in enumerate(names):
        for b in names[i + 1:]:
            common = sorted(set(sup[a]) & set(sup[b]))
            out.append({"name": f"{pid}:site:extractors:{a}/{b}:disjoint statement types", "status": "proved" if not common else "refuted", "detail": "disjoint" if not common else f"both claim {common}: the result would depend on __subclasses__() order", "clause": "exactly_one_extractor_per_statement_type", "backend": "syntactic scan", "kind": "K3-site"})
    return out


# Unguarded picks of the pinned tree, all on the write-target set of ONE statement/subquery.  That a statement has a single
# write target is an extraction invariant (INSERT/CTAS/UPDATE/MERGE grammar: one target) that no contract here decides and for
# which no multi-target witness was found: carried as a benign-site ASSUMPTION (DESIGN 4.1), listed in the evidence.  Any
# other unguarded pick site is a violation.
PICK_ASSUMED = {
    ("sqllineage.core.holders", "SubQueryLineageHolder.add_write_column", "list(self.write)[0]"),
    ("sqllineage.core.holders", "SubQueryLineageHolder._get_target_table", "next(iter(write_only))"),
    ("sqllineage.core.parser.sqlfluff.extractors.merge", "MergeExtractor.extract", "list(holder.write)[0]"),
    ("sqllineage.core.parser.sqlfluff.extractors.update", "UpdateExtractor.extract", "list(holder.write)[0]"),
    ("sqllineage.core.parser.sqlparse.analyzer", "SqlParseLineageAnalyzer._extract_from_dml_merge", "list(holder.write)[0]"),
    ("sqllineage.runner", "LineageRunner._eval", "next(iter(write))"),
}


def pick_sites(repo, pid="C11"):
    """no result may depend on WHICH element an unordered collection hands out first: every next(iter(X)) / list(X)[0] /
    X.pop() on a set-valued X is an obligation |X| <= 1, discharged from a syntactic guard in the same function"""
    out = []
    for m in sorted(repo.modules.values(), key=lambda x: x.name):
        if m.name in repo.ghost or ".sqlparse." in m.name and False:
            continue
        for qual, fn in _functions(m):
            src_fn = ast.unparse(fn)
            for sub in ast.walk(fn):
                expr = None
                if isinstance(sub, ast.Call) and isinstance(sub.func, ast.Name) and sub.func.id == "next" and sub.args and isinstance(sub.args[0], ast.Call) and isinstance(sub.args[0].func, ast.Name) and sub.args[0].func.id == "iter":
                    expr = sub.args[0].args[0]
                    form = f"next(iter({ast.unparse(expr)}))"
                elif isinstance(sub, ast.Subscript) and isinstance(sub.value, ast.Call) and isinstance(sub.value.func, ast.Name) and sub.value.func.id == "list" and isinstance(sub.slice, ast.Constant) and sub.slice.value == 0:
                    expr = sub.value.args[0]
                    form = f"list({ast.unparse(expr)})[0]"
                elif isinstance(sub, ast.Call) and isinstance(sub.func, ast.Attribute) and sub.func.attr == "pop" and not sub.args and isinstance(sub.func.value, ast.Name) and "set" in sub.func.value.id:
                    expr = sub.func.value
                    form = f"{ast.unparse(expr)}.pop()"
                if expr is None:
                    continue
                x = ast.unparse(expr)
                name = f"{pid}:site:{m.name}:{qual}:{form}"
                # guards recognised: `if len(X) > 1: raise`, `len(X) == 1` in the same expression / enclosing test, X is an ordered
                # sequence (recursive_crawl / list built from segments), X == self._parent guarded by len(self._parent) == 1
                just = None
                if f"len({x}) > 1" in src_fn and "raise" in src_fn:
                    just = f"guarded: more than one element raises (len({x}) > 1)"
                elif f"len({x}) == 1" in src_fn:
                    just = f"guarded by len({x}) == 1"
                elif "recursive_crawl" in x or "segment" in x.lower() or "token" in x.lower():
                    just = "an ordered sequence of parse-tree children (no set involved)"
                elif x in ("write_only",) and "difference" in src_fn:
                    just = None
                if just:
                    out.append({"name": name, "status": "proved", "detail": just, "clause": "no_result_depends_on_set_order", "backend": "syntactic scan", "kind": "K3-site"})
                elif (m.name, qual, form) in PICK_ASSUMED:
                    out.append({"name": name, "status": "assumed", "detail": "ASSUMED: one write target per statement (extraction invariant, no multi-target witness found)", "clause": "no_result_depends_on_set_order", "backend": "syntactic scan", "kind": "K3-site"})
                else:
                    out.append({"name": name, "status": "refuted", "detail": f"picks an arbitrary element of `{x}` with no guard that it has at most one", "clause": "no_result_depends_on_set_order", "backend": "syntactic scan", "kind": "K3-site"})
    return out


def _truthiness_operands(test):
    """expressions whose TRUTH VALUE the test requires (conjuncts of `and`, bool(x), walrus targets)"""
    out = []
    if isinstance(test, ast.BoolOp) and isinstance(test.op, ast.And):
        for v in test.values:
            out += _truthiness_operands(v)
    elif isinstance(test, ast.Call) and isinstance(test.func, ast.Name) and test.func.id == "bool" and len(test.args) == 1:
        out += _truthiness_operands(test.args[0])
    elif isinstance(test, ast.NamedExpr):
        out.append(ast.unparse(test.target))
    else:
        out.append(ast.unparse(test))
    return out


def gated_lookups(repo, pid="C13"):
    """every catalog look-up `<provider>.get_table_columns(...)` is dominated by a test of the provider's TRUTH VALUE (its
    __bool__ says whether it has metadata): an `is not None` / isinstance test does not count"""
    out = []
    for m in sorted(repo.modules.values(), key=lambda x: x.name):
        if m.name in repo.ghost:
            continue
        for qual, fn in _functions(m):
            parents = {}
            for node in ast.walk(fn):
                for ch in ast.iter_child_nodes(node):
                    parents[ch] = node
            for sub in ast.walk(fn):
                if not (isinstance(sub, ast.Call) and isinstance(sub.func, ast.Attribute) and sub.func.attr == "get_table_columns"):
                    continue
                recv = ast.unparse(sub.func.value)
                if "metadata_provider" not in recv and "provider" not in recv.lower():
                    continue  # holder.get_table_columns: columns known from the statement's own graph, not a catalog look-up
                name = f"{pid}:site:{m.name}:{qual}:{recv}.get_table_columns"
                gate = None
                cur, prev = sub, None
                while cur in parents:
                    prev, cur = cur, parents[cur]
                    tests = []
                    if isinstance(cur, (ast.If, ast.While)) and prev in cur.body:
                        tests.append(cur.test)
                    elif isinstance(cur, ast.IfExp) and prev is cur.body:
                        tests.append(cur.test)
                    elif isinstance(cur, ast.BoolOp) and isinstance(cur.op, ast.And):
                        tests += cur.values[: cur.values.index(prev)]
                    elif isinstance(cur, ast.comprehension):
                        tests += cur.ifs
                    for t in tests:
                        if recv in _truthiness_operands(t):
                            gate = ast.unparse(t)[:80]
                    if gate:
                        break
                if gate:
                    out.append({"name": name, "status": "proved", "detail": f"dominated by the truth value of `{recv}` in `{gate}`", "clause": "provider_truthiness_gates_every_lookup", "backend": "syntactic scan", "kind": "K3-site"})
                else:
                    out.append({"name": name, "status": "refuted", "detail": f"catalog look-up not dominated by a test of the truth value of `{recv}` (a provider without metadata would be consulted)", "clause": "provider_truthiness_gates_every_lookup", "backend": "syntactic scan", "kind": "K3-site"})
    return out


FRESH_COLUMN_MAKERS = {"Column", "SqlFluffColumn", "SqlParseColumn", "of", "_to_src_col"}
OWNER_ASSUMED = {
    # (module, function): why the column is not yet a node of any graph when its owner is assigned
    ("sqllineage.core.holders", "SubQueryLineageHolder.add_write_column"): "callers pass columns built from the column list / catalog in the same step (create_insert.extract); the has_column edge is added right after",
    ("sqllineage.core.parser", "SourceHandlerMixin.end_of_query_cleanup"): "select-list columns collected by the extractor, inserted only by the add_column_lineage calls below the store",
    ("sqllineage.core.models", "Column.to_source_columns"): "the subquery's own column objects are looked up by equality and re-owned with the SAME owner they already have (idempotent add to the owner set)",
    ("sqllineage.core.parser.sqlparse.analyzer", "SqlParseLineageAnalyzer._extract_from_dml_merge"): "columns built from the MERGE clause tokens in the enclosing loop, inserted by the add_column_lineage call below",
    ("sqllineage.core.parser.sqlfluff.extractors.merge", "MergeExtractor.extract"): "columns built from the MERGE clause segments in the enclosing loop, inserted by the add_column_lineage call below",
    ("sqllineage.core.parser.sqlfluff.extractors.update", "UpdateExtractor.extract"): "columns built from the SET clause in the enclosing loop, inserted by the add_column_lineage call below",
}


def owner_stores(repo, pid="C06"):
    """typestate 'owner assigned before insertion': a Column that may already be a graph node never gets a NEW owner (its
    hash would change under the graph's feet).  Every `.parent = ...` store is a site: proved when the column is created in
    the same function before the store, assumed (enumerated, justified) otherwise; a new unclassified site fails."""
    out = []
    for m in sorted(repo.modules.values(), key=lambda x: x.name):
        if m.name in repo.ghost:
            continue
        for qual, fn in _functions(m):
            made = set()
            for sub in ast.walk(fn):
                if isinstance(sub, ast.Assign) and len(sub.targets) == 1 and isinstance(sub.targets[0], ast.Name) and isinstance(sub.value, ast.Call):
                    f = sub.value.func
                    callee = f.id if isinstance(f, ast.Name) else (f.attr if isinstance(f, ast.Attribute) else None)
                    if callee in FRESH_COLUMN_MAKERS:
                        made.add(sub.targets[0].id)
            k = 0
            for sub in ast.walk(fn):
                if not (isinstance(sub, ast.Attribute) and sub.attr == "parent" and isinstance(sub.ctx, ast.Store)):
                    continue
                if qual.endswith("Column.parent"):
                    continue  # the setter itself
                k += 1
                tgt = ast.unparse(sub.value)
                name = f"{pid}:site:{m.name}:{qual}:{tgt}.parent=#{k}"
                if isinstance(sub.value, ast.Name) and sub.value.id in made:
                    out.append({"name": name, "status": "proved", "detail": f"`{tgt}` is created in this function before the store: not yet a node of any graph", "clause": "owner_assigned_before_insertion", "backend": "syntactic scan", "kind": "K3-site"})
                elif (m.name, qual) in OWNER_ASSUMED:
                    out.append({"name": name, "status": "assumed", "detail": "ASSUMED: " + OWNER_ASSUMED[(m.name, qual)], "clause": "owner_assigned_before_insertion", "backend": "syntactic scan", "kind": "K3-site"})
                else:
                    out.append({"name": name, "status": "refuted", "detail": f"owner of `{tgt}` assigned at a site where the column may already be a graph node", "clause": "owner_assigned_before_insertion", "backend": "syntactic scan", "kind": "K3-site"})
            # the owner set only grows: no removal from _parent anywhere
            for sub in ast.walk(fn):
                if isinstance(sub, ast.Call) and isinstance(sub.func, ast.Attribute) and sub.func.attr in ("remove", "discard", "clear", "pop") and isinstance(sub.func.value, ast.Attribute) and sub.func.value.attr == "_parent":
                    out.append({"name": f"{pid}:site:{m.name}:{qual}:{ast.unparse(sub)[:40]}", "status": "refuted", "detail": "an owner is removed from a column (owner sets must only grow)", "clause": "owner_sets_only_grow", "backend": "syntactic scan", "kind": "K3-site"})
                if isinstance(sub, ast.Attribute) and sub.attr == "_parent" and isinstance(sub.ctx, ast.Store) and not qual.endswith("Column.__init__"):
                    out.append({"name": f"{pid}:site:{m.name}:{qual}:_parent=", "status": "refuted", "detail": "owner set replaced outside the constructor", "clause": "owner_sets_only_grow", "backend": "syntactic scan", "kind": "K3-site"})
    return out


def _has_letter(s):
    return isinstance(s, str) and any(ch.isalpha() for ch in s)


def _lit_strings(node):
    if isinstance(node, ast.Constant) and isinstance(node.value, str):
        return [node.value]
    if isinstance(node, (ast.List, ast.Tuple, ast.Set)):
        return [e.value for e in node.elts if isinstance(e, ast.Constant) and isinstance(e.value, str)]
    return []


RAW_TEXT_ASSUMED = {
    # (module, function, expression): why a case-sensitive comparison of source text is right there
}
POSITIONAL_ASSUMED = {
    ("sqllineage.core.parser.sqlfluff.analyzer", "SqlFluffLineageAnalyzer._list_specific_statement_segment"): "G5: the children of the file / batch / statement node are statements or separators; the first child of a `statement` is the typed statement itself",
    ("sqllineage.core.parser.sqlfluff.analyzer", "SqlFluffLineageAnalyzer.analyze"): "G5: first child of a statement node",
    ("sqllineage.core.parser.sqlfluff.utils", "is_subquery"): "G6: the first child of a from_expression_element is its table expression (never negligible)",
    ("sqllineage.core.parser.sqlfluff.utils", "extract_as_and_target_segment"): "applied to list_child_segments(...) (negligible children already removed)",
    ("sqllineage.core.parser.sqlfluff.utils", "extract_identifier"): "applied to list_child_segments(...)",
    ("sqllineage.core.parser.sqlfluff.utils", "extract_column_qualifier"): "applied to list_child_segments(...)",
    ("sqllineage.core.parser.sqlfluff.extractors.base", "BaseExtractor._add_dataset_from_expression_element"): "applied to list_child_segments(...) filtered lists",
}


def layout_discipline(repo, pid="C07"):
    """(a) keyword discipline: segment text is compared with a literal that contains a letter only through raw_upper /
    .upper() / .lower() / a normalised name; (b) positional discipline: a constant subscript on a raw `.segments` sequence
    is an enumerated, justified site (everything else indexes filtered lists)."""
    out = []
    for m in sorted(repo.modules.values(), key=lambda x: x.name):
        if m.name in repo.ghost or ".parser." not in m.name and not m.name.endswith(".parser"):
            continue
        for qual, fn in _functions(m):
            for sub in ast.walk(fn):
                if isinstance(sub, ast.Compare):
                    sides = [sub.left] + list(sub.comparators)
                    lits = [s for x in sides for s in _lit_strings(x)]
                    # compared with a letter-bearing literal, or with a NON-literal (a variable may hold a keyword)
                    nonlit = [x for x in sides if not _lit_strings(x) and not (isinstance(x, ast.Attribute) and x.attr in ("raw", "value", "normalized", "raw_upper")) and not isinstance(x, ast.Constant)]
                    if not any(_has_letter(s) for s in lits) and not nonlit:
                        continue
                    for x in sides:
                        if isinstance(x, ast.Attribute) and x.attr in ("raw", "value", "normalized") and not _lit_strings(x):
                            text = ast.unparse(sub)[:70]
                            name = f"{pid}:site:{m.name}:{qual}:{text}"
                            if x.attr == "normalized":
                                out.append({"name": name, "status": "proved", "detail": "sqlparse `normalized` is the upper-cased keyword text", "clause": "keywords_compared_case_insensitively", "backend": "syntactic scan", "kind": "K3-site"})
                            elif (m.name, qual, text) in RAW_TEXT_ASSUMED:
                                out.append({"name": name, "status": "assumed", "detail": "ASSUMED: " + RAW_TEXT_ASSUMED[(m.name, qual, text)], "clause": "keywords_compared_case_insensitively", "backend": "syntactic scan", "kind": "K3-site"})
                            else:
                                out.append({"name": name, "status": "refuted", "detail": f"source text `{ast.unparse(x)}` compared case-sensitively with a literal containing letters", "clause": "keywords_compared_case_insensitively", "backend": "syntactic scan", "kind": "K3-site"})
                if isinstance(sub, ast.Subscript) and isinstance(sub.value, ast.Attribute) and sub.value.attr == "segments" and ".sqlfluff" in m.name:
                    idx = ast.unparse(sub.slice)
                    name = f"{pid}:site:{m.name}:{qual}:{ast.unparse(sub)[:60]}"
                    if (m.name, qual) in POSITIONAL_ASSUMED:
                        out.append({"name": name, "status": "assumed", "detail": "ASSUMED shape: " + POSITIONAL_ASSUMED[(m.name, qual)], "clause": "positions_are_taken_on_filtered_children", "backend": "syntactic scan", "kind": "K3-site"})
                    else:
                        out.append({"name": name, "status": "refuted", "detail": f"raw positional access `{ast.unparse(sub)[:60]}`: an inserted comment / newline shifts the answer", "clause": "positions_are_taken_on_filtered_children", "backend": "syntactic scan", "kind": "K3-site"})
    return out
