"""Path state of the symbolic executor and small shared helpers."""
import z3

from . import sorts as S
from .values import Facts


class OutsideSubset(Exception):
    """The code under contract uses a construct the translator does not model: verdict UNDECIDED, never a violation."""


class Raised:
    """An exceptional result of evaluating an expression / executing a statement."""

    def __init__(self, cls, value=None, where=None):
        self.cls = cls  # exception class name, or "<unknown>" for an opaque callee's exception
        self.value = value
        self.where = where

    def __repr__(self):
        return f"Raised({self.cls}@{self.where})"


class Frame:
    __slots__ = ("module", "func", "cls", "fq")

    def __init__(self, module, func=None, cls=None, fq=None):
        self.module, self.func, self.cls, self.fq = module, func, cls, fq


class State:
    __slots__ = ("env", "heap", "pc", "frame", "ghost", "trace", "depth", "facts")

    def __init__(self, env=None, heap=None, pc=(), frame=None, ghost=None, trace=(), depth=0, facts=()):
        self.env = env if env is not None else {}
        self.heap = heap if heap is not None else {}
        self.pc = pc
        self.frame = frame
        self.ghost = ghost if ghost is not None else {}
        self.trace = trace
        self.depth = depth
        self.facts = facts

    def copy(self, **kw):
        st = State(self.env, self.heap, self.pc, self.frame, self.ghost, self.trace, self.depth, self.facts)
        for k, v in kw.items():
            setattr(st, k, v)
        return st

    def set(self, name, sv):
        env = dict(self.env)
        env[name] = sv
        return self.copy(env=env)

    def assume(self, *fs):
        fs = [f for f in fs if not z3.is_true(f)]
        if not fs:
            return self
        return self.copy(pc=self.pc + tuple(fs))

    def with_facts(self, facts):
        if isinstance(facts, Facts):
            facts = facts.items
        facts = [f for f in facts if not z3.is_true(f)]
        if not facts:
            return self
        have = {f.get_id() for f in self.facts}
        new = tuple(f for f in facts if f.get_id() not in have)
        return self.copy(facts=self.facts + new) if new else self

    @property
    def hyps(self):
        return self.facts + self.pc

    def with_heap(self, field, arr):
        h = dict(self.heap)
        h[field] = arr
        return self.copy(heap=h)

    def with_ghost(self, k, v):
        g = dict(self.ghost)
        g[k] = v
        return self.copy(ghost=g)

    def note(self, s):
        return self.copy(trace=self.trace + (s,))


def And(*xs):
    xs = [x for x in xs if not z3.is_true(x)]
    if not xs:
        return z3.BoolVal(True)
    if len(xs) == 1:
        return xs[0]
    return z3.And(*xs)


def Or(*xs):
    xs = [x for x in xs if not z3.is_false(x)]
    if not xs:
        return z3.BoolVal(False)
    if len(xs) == 1:
        return xs[0]
    return z3.Or(*xs)


def Not(x):
    if z3.is_true(x):
        return z3.BoolVal(False)
    if z3.is_false(x):
        return z3.BoolVal(True)
    return z3.Not(x)
