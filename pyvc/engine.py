"""Path-wise symbolic executor for the Python subset used by the functions under contract.

The executor walks the *real* AST of a function read from /repo.  Every evaluation routine is a generator of
(state, result) pairs: one pair per feasible path.  `result` is an SV, or a `Raised` for an exceptional exit.
"""
import ast

import z3

from . import sorts as S
from .sorts import V
from .state import And, Frame, Not, Or, OutsideSubset, Raised, State
from .values import (
    SV,
    SV_NONE,
    Facts,
    TAny,
    TBool,
    TDict,
    TGraph,
    TInt,
    TList,
    TNone,
    TObj,
    TOpt,
    TSet,
    TStr,
    TTuple,
    TTupleVar,
    TUnion,
    box,
    class_id,
    class_value,
    parse_type,
    strip_opt,
    sv_bool,
    sv_dict,
    sv_graph,
    sv_int,
    sv_list,
    sv_set,
    sv_str,
    sv_tuple,
    sv_v,
    unbox,
)

BUILTIN_EXC = {
    "BaseException": None,
    "Exception": "BaseException",
    "SystemExit": "BaseException",
    "KeyboardInterrupt": "BaseException",
    "ArithmeticError": "Exception",
    "ZeroDivisionError": "ArithmeticError",
    "LookupError": "Exception",
    "KeyError": "LookupError",
    "IndexError": "LookupError",
    "ValueError": "Exception",
    "TypeError": "Exception",
    "AttributeError": "Exception",
    "StopIteration": "Exception",
    "RuntimeError": "Exception",
    "NotImplementedError": "RuntimeError",
    "RecursionError": "RuntimeError",
    "AssertionError": "Exception",
    "OSError": "Exception",
    "FileNotFoundError": "OSError",
    "IsADirectoryError": "OSError",
    "PermissionError": "OSError",
    "NotADirectoryError": "OSError",
    "UnicodeDecodeError": "ValueError",
    "JSONDecodeError": "ValueError",
    "NetworkXError": "Exception",
    "GeneratorExit": "BaseException",
    "NameError": "Exception",
    "UnboundLocalError": "NameError",
    "Warning": "Exception",
    "DeprecationWarning": "Warning",
    "SyntaxWarning": "Warning",
}

UNKNOWN_EXC = "<unknown>"


def _join_types(tys):
    """static type of a value merged from several paths"""
    out = []
    has_none = False
    for t in tys:
        if t == TNone:
            has_none = True
        elif isinstance(t, TOpt):
            has_none = True
            if t.inner not in out:
                out.append(t.inner)
        elif t not in out:
            out.append(t)
    if not out:
        return TNone
    base = out[0] if len(out) == 1 else (TUnion(out) if all(isinstance(o, TObj) for o in out) else TAny)
    if base == TAny:
        return TAny
    return TOpt(base) if has_none else base


class BudgetExhausted(OutsideSubset):
    pass


class Outcome:
    __slots__ = ("kind", "value")

    def __init__(self, kind, value=None):
        self.kind, self.value = kind, value

    def __repr__(self):
        return f"Outcome({self.kind},{self.value})"


NORMAL = Outcome("normal")
BREAK = Outcome("break")
CONTINUE = Outcome("continue")


class Obligation:
    def __init__(self, name, hyps, goal, meta=None):
        self.name, self.hyps, self.goal, self.meta = name, tuple(hyps), goal, meta or {}
        self.status = None
        self.time = 0.0
        self.model = None
        self.backend = None


class LoopSpec:
    def __init__(self, inv=None, modifies=None, ghost=None, unroll=None, allocates=False, step=None, step_props=None):
        self.allocates = allocates
        self.step = step or {}  # STEP CONTRACT: clauses relating the state after one iteration to pre_iter(...)
        self.inv = inv or {}  # name -> spec string
        self.modifies = modifies or []  # heap locations "expr.field" havocked by the loop
        self.ghost = ghost or {}
        self.unroll = unroll  # exact unrolling allowed for statically bounded iterables


class Engine:
    def __init__(self, repo, contracts=None, mode="prove", unroll=2, feas_timeout=1000, max_depth=12):
        self.repo = repo
        self.contracts = contracts or {}
        self.mode = mode
        self.unroll = unroll
        self.feas_timeout = feas_timeout
        self.feas_rlimit = 300000
        self.max_depth = max_depth
        self.heap0 = {}
        self.obligs = []
        self.used_models = set()
        self.dropped = set()
        self.ext_models = {}
        self.method_models = {}
        self.builtin_models = {}
        self.opaque_classes = {}
        self.field_types = {}
        self.global_objects = {}
        self.current_contract = None
        self.verifying = None  # fq of the function whose body is being verified (its own contract is not used for it)
        self.loop_ordinals = {}
        self.feas_cache = {}
        self._quant_cache = {}
        self._binder_cache = {}
        self._abs_memo = {}
        self._simp_memo = {}
        self.deadline = None
        self.yield_handlers = []
        self.spec_ctx = []
        self.spec_depth = 0
        self.spec_funcs = {}
        self.spec_warnings = []
        self.ext_consts = {}
        self.exec_eq_classes = set()
        self.field_hooks = {}
        self.droppable_facts = {}  # id -> fact: generalised well-typedness facts (safe to drop when searching a counter-model)
        self.stats = {"feas_checks": 0, "paths": 0}
        self.exc_parent = dict(BUILTIN_EXC)
        for c in set(repo.classes.values()):
            if c.module.name.endswith("exceptions"):
                self.exc_parent[c.name] = c.bases[0] if c.bases else "Exception"
        from . import builtins_model, nx_model, ext_model, path_model

        builtins_model.install(self)
        nx_model.install(self)
        ext_model.install(self)
        path_model.install(self)

    # ------------------------------------------------------------------------------------------
    # helpers
    # ------------------------------------------------------------------------------------------
    def has_quant(self, f):
        c = self._quant_cache
        fid = f.get_id()
        r = c.get(fid)
        if r is not None:
            return r[0]
        todo = [f]
        seen = set()
        r = False
        while todo:
            t = todo.pop()
            tid = t.get_id()
            if tid in seen:
                continue
            seen.add(tid)
            if z3.is_quantifier(t):
                if t.is_lambda():
                    todo.append(t.body())
                    continue
                r = True
                break
            todo.extend(t.children())
        c[fid] = (r, f)  # keep f alive: z3 recycles ast ids of collected terms
        return r

    def has_binder(self, f):
        """contains a lambda or a quantifier anywhere"""
        c = self._binder_cache
        fid = f.get_id()
        r = c.get(fid)
        if r is not None:
            return r[0]
        todo = [f]
        seen = set()
        r = False
        while todo:
            t = todo.pop()
            tid = t.get_id()
            if tid in seen:
                continue
            seen.add(tid)
            if z3.is_quantifier(t):
                r = True
                break
            todo.extend(t.children())
        c[fid] = (r, f)
        return r

    def abstract(self, f):
        """Propositional abstraction for path pruning: every boolean atom that contains a lambda / quantifier is replaced
        by a fresh Bool (the same Bool for the same atom).  Sound for pruning (more models = more paths kept) and keeps
        z3 away from its array/lambda engine, which is where short time limits made it crash."""
        m = self._abs_memo
        fid = f.get_id()
        r = m.get(fid)
        if r is not None:
            return r[0]
        if not self.has_binder(f):
            res = f
        elif z3.is_and(f) or z3.is_or(f) or z3.is_not(f) or z3.is_implies(f) or (z3.is_app(f) and f.decl().kind() in (z3.Z3_OP_ITE, z3.Z3_OP_EQ, z3.Z3_OP_XOR, z3.Z3_OP_IFF) and all(z3.is_bool(c) for c in f.children())):
            res = f.decl()(*[self.abstract(c) for c in f.children()])
        else:
            res = z3.Bool(f"abs!{len(m)}")
        m[fid] = (res, f)
        return res

    def feasible(self, st, full=False):
        """Path pruning on the propositional abstraction of the (simplified) hypotheses; `unknown` counts as feasible."""
        hyps = []
        for f in st.hyps:
            sf = self._simp_memo.get(f.get_id())
            if sf is None:
                sf = (z3.simplify(f), f)
                self._simp_memo[f.get_id()] = sf
            a = self.abstract(sf[0])
            if not z3.is_true(a):
                hyps.append(a)
        key = tuple(f.get_id() for f in hyps)
        r = self.feas_cache.get(key)
        if r is None:
            self.stats["feas_checks"] += 1
            s = z3.Solver()
            s.set("timeout", self.feas_timeout)
            s.add(*hyps)
            r = (s.check() != z3.unsat, list(hyps))  # keep the terms alive: z3 recycles ast ids
            self.feas_cache[key] = r
        return r[0]

    def entails(self, st, f):
        if z3.is_true(f):
            return True
        s = z3.Solver()
        s.set("timeout", self.feas_timeout)
        s.add(*[self.abstract(z3.simplify(h)) for h in st.hyps])
        s.add(z3.Not(f))
        return s.check() == z3.unsat

    def fork(self, st, cond):
        """yield (state, bool) for the feasible sides of cond"""
        cond = z3.simplify(cond) if z3.is_expr(cond) else z3.BoolVal(bool(cond))
        if z3.is_true(cond):
            yield st, True
            return
        if z3.is_false(cond):
            yield st, False
            return
        if self.spec_ctx or self.spec_depth:
            # specification expressions are merged into one term: no pruning needed, no solver calls
            yield st.assume(cond), True
            yield st.assume(z3.Not(cond)), False
            return
        a = st.assume(cond)
        if self.feasible(a):
            yield a, True
        b = st.assume(z3.Not(cond))
        if self.feasible(b):
            yield b, False

    def exec_eq_for(self, cname):
        """execute the class's own __eq__ (model-layer obligations) instead of the interning assumption A_eq"""
        return cname in self.exec_eq_classes

    def is_exc_subclass(self, cls, base):
        """True / False / None (unknown)"""
        if cls == UNKNOWN_EXC:
            if base in ("Exception", "BaseException"):
                return True if base == "BaseException" else None
            return None
        c = cls
        while c is not None:
            if c == base:
                return True
            c = self.exc_parent.get(c)
        if cls not in self.exc_parent:
            return None
        return False

    def heap_arr(self, st, field):
        if field in st.heap:
            return st.heap[field]
        if field not in self.heap0:
            self.heap0[field] = z3.Const(f"H0_{field}", S.MapS)
        return self.heap0[field]

    def alive(self, st):
        a = st.ghost.get("alive")
        if a is None:
            a = z3.Const("ALIVE0", S.SetS)
        return a

    def new_object(self, st, clsname):
        n = S.fresh("new_" + clsname, S.Int)
        o = V.obj(n)
        al = self.alive(st)
        st = st.with_facts([z3.Not(al[o]), n > 0, S.cls_of(n) == class_id(clsname)])
        st = st.with_ghost("alive", z3.Store(al, o, z3.BoolVal(True)))
        return st, sv_v(o, TObj(clsname))

    def global_object(self, key, clsname):
        if key not in self.global_objects:
            self.global_objects[key] = (10**6 + len(self.global_objects), clsname)
        n, c = self.global_objects[key]
        return sv_v(V.obj(z3.IntVal(n)), TObj(clsname))

    def global_facts(self):
        fs = []
        for key, (n, c) in self.global_objects.items():
            fs.append(S.cls_of(z3.IntVal(n)) == class_id(c))
            fs.append(z3.Const("ALIVE0", S.SetS)[V.obj(z3.IntVal(n))])
        return fs

    def field_type(self, clsname, field):
        ci = self.repo.classes.get(clsname)
        if ci:
            for c in self.repo.mro(ci):
                if (c.name, field) in self.field_types:
                    return parse_type(self.field_types[(c.name, field)])
            for c in self.repo.mro(ci):
                for fn in c.methods.values():
                    for sub in ast.walk(fn.node):
                        if (
                            isinstance(sub, ast.AnnAssign)
                            and isinstance(sub.target, ast.Attribute)
                            and isinstance(sub.target.value, ast.Name)
                            and sub.target.value.id == "self"
                            and sub.target.attr == field
                        ):
                            return parse_type(sub.annotation)
                # class-level annotations (mixins)
                for stn in c.node.body:
                    if isinstance(stn, ast.AnnAssign) and isinstance(stn.target, ast.Name) and stn.target.id == field:
                        return parse_type(stn.annotation)
        if (clsname, field) in self.field_types:
            return parse_type(self.field_types[(clsname, field)])
        oc = self.opaque_classes.get(clsname)
        if oc and field in oc.get("fields", {}):
            return parse_type(oc["fields"][field])
        return None

    def read_field(self, st, o, clsname, field):
        ty = self.field_type(clsname, field)
        if ty is None:
            ty = TAny
        f = Facts()
        raw = self.heap_arr(st, field)[o]
        sv = unbox(raw, ty, f)
        if sv.kind == "v" and isinstance(strip_opt(sv.ty), (TObj, TUnion)):
            # everything reachable is allocated
            f.add(z3.Implies(V.is_obj(raw), self.alive(st)[raw]))
        sv.origin = ("heap", o, field)
        return st.with_facts(f), sv

    def write_field(self, st, o, field, sv):
        f = Facts()
        b = box(sv, f)
        st = st.with_facts(f)
        return st.with_heap(field, z3.Store(self.heap_arr(st, field), o, b))

    def oblige(self, st, goal, name, **meta):
        ob = Obligation(name, st.hyps, goal, meta)
        ob.nfacts = len(st.facts)
        ob.qfacts = [i for i, f in enumerate(st.facts) if f.get_id() in self.droppable_facts]
        self.obligs.append(ob)

    def fresh_like(self, sv, name="h"):
        k = sv.kind
        if k == "int":
            return sv_int(S.fresh(name, S.Int))
        if k == "bool":
            return sv_bool(S.fresh(name, S.Bool))
        if k == "str":
            return sv_str(S.fresh(name, S.Str))
        if k == "none":
            return SV_NONE
        if k == "v":
            return sv_v(S.fresh(name, V), sv.ty)
        if k == "set":
            return SV("set", S.fresh(name, S.SetS), sv.ty)
        if k == "list":
            return SV("list", (S.fresh(name + "_len", S.Int), S.fresh(name, S.SeqS)), sv.ty)
        if k == "dict":
            return SV("dict", (S.fresh(name + "_dom", S.SetS), S.fresh(name, S.MapS)), sv.ty)
        if k == "tuple":
            return SV("tuple", [self.fresh_like(i, name) for i in sv.t], sv.ty)
        if k == "graph":
            return sv_graph(
                S.fresh(name + "_n", S.SetS), S.fresh(name + "_na", S.Map2S), S.fresh(name + "_e", S.RelS), S.fresh(name + "_ea", z3.ArraySort(V, V, S.MapS))
            )
        return sv

    def fresh_of_type(self, ty, name="x", st=None, alive=True):
        """(facts, SV) for an arbitrary well-typed value of static type ty (alive: allocated in the initial state)"""
        f = Facts()
        if not alive:
            f0, sv = self.fresh_of_type(ty, name, st, True)
            al = self.alive_term()
            f.items.extend(x for x in f0.items if not (z3.is_app(x) and x.decl().kind() == z3.Z3_OP_SELECT and x.arg(0).eq(al)))
            return f, sv
        ty = parse_type(ty)
        if ty == TInt:
            return f, sv_int(S.fresh(name, S.Int))
        if ty == TBool:
            return f, sv_bool(S.fresh(name, S.Bool))
        if ty == TStr:
            return f, sv_str(S.fresh(name, S.Str))
        if ty == TNone:
            return f, SV_NONE
        if ty == TGraph:
            g = sv_graph(S.fresh(name + "_n", S.SetS), S.fresh(name + "_na", S.Map2S), S.fresh(name + "_e", S.RelS), S.fresh(name + "_ea", z3.ArraySort(V, V, S.MapS)))
            f.items.extend(self.graph_wf(g))
            return f, g
        if isinstance(ty, TSet):
            return f, sv_set(S.fresh(name, S.SetS), ty.elem)
        if isinstance(ty, TList):
            n = S.fresh(name + "_len", S.Int)
            f.add(n >= 0)
            return f, sv_list(n, S.fresh(name, S.SeqS), ty.elem)
        if isinstance(ty, TDict):
            return f, sv_dict(S.fresh(name + "_dom", S.SetS), S.fresh(name, S.MapS), ty.k, ty.v)
        if isinstance(ty, TTuple):
            items = []
            for i, it in enumerate(ty.items):
                f2, sv = self.fresh_of_type(it, f"{name}_{i}")
                f.items.extend(f2.items)
                items.append(sv)
            return f, sv_tuple(items)
        v = S.fresh(name, V)
        if isinstance(ty, TObj):
            f.add(V.is_obj(v))
            f.add(self.alive_term()[v])
            f.add(self.instance_of(v, ty.cls))
        elif isinstance(ty, TOpt) and isinstance(ty.inner, TObj):
            f.add(Or(V.is_none(v), And(V.is_obj(v), self.alive_term()[v], self.instance_of(v, ty.inner.cls))))
        elif isinstance(ty, TOpt) and ty.inner == TStr:
            f.add(Or(V.is_none(v), V.is_str_(v)))
        elif isinstance(ty, TOpt) and ty.inner == TInt:
            f.add(Or(V.is_none(v), V.is_int(v)))
        elif isinstance(ty, TUnion) and all(isinstance(i, TObj) for i in ty.items):
            f.add(V.is_obj(v))
            f.add(self.alive_term()[v])
            f.add(Or(*[self.instance_of(v, i.cls) for i in ty.items]))
        elif isinstance(ty, TOpt) and isinstance(ty.inner, TUnion) and all(isinstance(i, TObj) for i in ty.inner.items):
            f.add(Or(V.is_none(v), And(V.is_obj(v), self.alive_term()[v], Or(*[self.instance_of(v, i.cls) for i in ty.inner.items]))))
        return f, sv_v(v, ty)

    def alive_term(self):
        return z3.Const("ALIVE0", S.SetS)

    def instance_of(self, v, clsname):
        """z3 Bool: the object v is an instance of class clsname (or a subclass known to the repo)"""
        names = {clsname}
        if clsname in self.repo.classes:
            for c in self.repo.subclasses(clsname):
                names.add(c.name)
        return Or(*[S.cls_of(V.oid(v)) == class_id(n) for n in sorted(names)])

    def graph_wf(self, g):
        """Well-formedness of a DiGraph value: endpoints of edges are nodes."""
        n, na, e, ea = g.t
        a, b = z3.Consts("wf_a wf_b", V)
        return [z3.ForAll([a, b], z3.Implies(e[a, b], And(n[a], n[b])))]

    # ------------------------------------------------------------------------------------------
    # truthiness / coercions
    # ------------------------------------------------------------------------------------------
    def truthy(self, st, sv):
        """generator of (state, z3 Bool | Raised)"""
        k = sv.kind
        if k == "bool":
            yield st, sv.t
        elif k == "int":
            yield st, sv.t != 0
        elif k == "str":
            yield st, z3.Length(sv.t) > 0
        elif k == "none":
            yield st, z3.BoolVal(False)
        elif k == "set":
            yield st, S.set_nonempty(sv.t)
        elif k == "list":
            yield st, sv.t[0] > 0
        elif k == "dict":
            x = S.fresh("w", V)
            yield st, z3.Exists([x], sv.t[0][x])
        elif k == "tuple":
            yield st, z3.BoolVal(len(sv.t) > 0)
        elif k in ("func", "class", "module", "pathobj", "file", "httpstatus", "namespace"):
            yield st, z3.BoolVal(True)
        elif k == "graph":
            x = S.fresh("w", V)
            yield st, z3.Exists([x], sv.t[0][x])
        elif k == "v":
            ty = sv.ty
            inner = strip_opt(ty)
            nn = Not(V.is_none(sv.t))
            if isinstance(inner, TObj):
                ci = self.repo.classes.get(inner.cls)
                fi = ci and (self.repo.find_method(ci, "__bool__") or self.repo.find_method(ci, "__len__"))
                if fi is None and inner.cls in self.opaque_classes and "__bool__" in self.opaque_classes[inner.cls].get("methods", {}):
                    for st2, r in self.opaque_classes[inner.cls]["methods"]["__bool__"](self, st, sv, [], {}, None):
                        if isinstance(r, Raised):
                            yield st2, r
                        else:
                            yield st2, And(nn, r.t)
                    return
                if fi is None:
                    yield st, nn if isinstance(ty, TOpt) else z3.BoolVal(True)
                    return
                if isinstance(ty, TOpt):
                    for st1, isn in self.fork(st, V.is_none(sv.t)):
                        if isn:
                            yield st1, z3.BoolVal(False)
                        else:
                            yield from self._call_bool(st1, sv_v(sv.t, inner), fi)
                else:
                    yield from self._call_bool(st, sv, fi)
                return
            if inner == TStr:
                yield st, And(nn, z3.Length(V.sval(sv.t)) > 0)
                return
            if inner == TInt:
                yield st, And(nn, V.ival(sv.t) != 0)
                return
            if isinstance(inner, (TSet, TList, TDict, TTuple)) or inner == TGraph:
                f = Facts()
                u = unbox(sv.t, inner, f, assume_types=False)
                for st1, isn in self.fork(st.with_facts(f), V.is_none(sv.t)):
                    if isn:
                        yield st1, z3.BoolVal(False)
                    else:
                        yield from self.truthy(st1, u)
                return
            # dynamic: defined by cases on the primitive kinds; other objects are truthy
            v = sv.t
            yield st, z3.If(
                V.is_none(v),
                z3.BoolVal(False),
                z3.If(V.is_bool_(v), V.bval(v), z3.If(V.is_int(v), V.ival(v) != 0, z3.If(V.is_str_(v), z3.Length(V.sval(v)) > 0, self.dyn_truthy(v)))),
            )
        else:
            raise OutsideSubset(f"truthiness of {k}")

    def dyn_truthy(self, v):
        f = z3.Function("truthy_other", V, S.Bool)
        return f(v)

    def _call_bool(self, st, sv, fi):
        for st2, r in self.call_repo(fi, [sv], {}, st):
            if isinstance(r, Raised):
                yield st2, r
            elif fi.node.name == "__len__":
                yield st2, self.as_int(r) > 0
            else:
                yield st2, self.as_bool_term(r)

    def as_bool_term(self, sv):
        if sv.kind == "bool":
            return sv.t
        if sv.kind == "v":
            return V.bval(sv.t)
        if sv.kind == "int":
            return sv.t != 0
        raise OutsideSubset(f"as_bool {sv.kind}")

    def as_int(self, sv):
        if sv.kind == "int":
            return sv.t
        if sv.kind == "bool":
            return z3.If(sv.t, z3.IntVal(1), z3.IntVal(0))
        if sv.kind == "v":
            return V.ival(sv.t)
        raise OutsideSubset(f"as_int {sv.kind}")

    def as_str(self, sv):
        if sv.kind == "str":
            return sv.t
        if sv.kind == "v":
            return V.sval(sv.t)
        raise OutsideSubset(f"as_str {sv.kind}")

    def boxed(self, st, sv):
        f = Facts()
        b = box(sv, f)
        return st.with_facts(f), b

    def unboxed(self, st, v, ty):
        f = Facts()
        sv = unbox(v, parse_type(ty), f)
        if sv.kind == "v" and isinstance(strip_opt(sv.ty), (TObj, TUnion)):
            f.add(z3.Implies(V.is_obj(v), self.alive(st)[v]))
            inner = strip_opt(sv.ty)
            names = [inner.cls] if isinstance(inner, TObj) else [i.cls for i in inner.items if isinstance(i, TObj)]
            if names and all((n in self.repo.classes or n in self.opaque_classes) for n in names):
                # declared element / field types are assumed (well-typedness of inputs)
                f.add(z3.Implies(V.is_obj(v), Or(*[self.instance_of(v, n) for n in names])))
        return st.with_facts(f), sv

    def narrow(self, st, sv, want):
        """generator of (state, SV-of-kind-want | None): dynamic kind test of a 'v' value. None = not that kind."""
        if sv.kind == want:
            yield st, sv
            return
        if sv.kind != "v":
            yield st, None
            return
        tests = {"str": V.is_str_, "int": V.is_int, "bool": V.is_bool_}
        if want in tests:
            for st1, ok in self.fork(st, tests[want](sv.t)):
                if ok:
                    conv = {"str": lambda: sv_str(V.sval(sv.t)), "int": lambda: sv_int(V.ival(sv.t)), "bool": lambda: sv_bool(V.bval(sv.t))}[want]()
                    yield st1, conv
                else:
                    yield st1, None
            return
        inner = strip_opt(sv.ty)
        kinds = {"set": TSet, "list": TList, "dict": TDict, "tuple": TTuple}
        if want in kinds and isinstance(inner, kinds[want]):
            for st1, isn in self.fork(st, V.is_none(sv.t)):
                if isn:
                    yield st1, None
                else:
                    st2, u = self.unboxed(st1, sv.t, inner)
                    yield st2, u
            return
        if want == "graph" and inner == TGraph:
            st2, u = self.unboxed(st, sv.t, inner)
            yield st2, u
            return
        yield st, None

    # ------------------------------------------------------------------------------------------
    # statements
    # ------------------------------------------------------------------------------------------
    def exec_block(self, stmts, st):
        if not stmts:
            yield st, NORMAL
            return
        head, rest = stmts[0], stmts[1:]
        for st1, out in self.exec_stmt(head, st):
            if out.kind == "normal":
                st1 = self.after_statement(st, st1, head)
                yield from self.exec_block(rest, st1)
            else:
                if out.kind in ("return", "raise"):
                    self.after_statement(st, st1, head, normal=False)
                yield st1, out

    SIMPLE_STMTS = (ast.Assign, ast.AugAssign, ast.AnnAssign, ast.Expr, ast.Return, ast.Raise, ast.Delete, ast.Assert)

    def after_statement(self, before, after, stmt, normal=True):
        """Rely/guarantee at statement granularity for the function under verification:
        GUARANTEE  every `stable` clause holds across this statement (prev() is the state just before it);
        RELY       then other threads interfere: the `interfere` locations are havocked, the `rely` clauses assumed."""
        c = self.current_contract
        if c is None or not (c.stable or c.interfere) or self.verifying is None or self.spec_ctx:
            return after
        if after.frame.fq != self.verifying or not isinstance(stmt, self.SIMPLE_STMTS):
            return after
        if isinstance(stmt, ast.Expr) and isinstance(stmt.value, ast.Constant):
            return after
        from .spec import spec_bool, spec_value

        for name, text in c.stable.items():
            g, stg = spec_bool(self, text, after, prev=before)
            self.oblige(stg, g, f"{self.verifying}:stable.{name}:line{stmt.lineno}:{len(self.obligs)}", kind="stable", func=self.verifying, clause=f"stable.{name}", props=c.props_of(f"stable.{name}"))
        if not normal or not c.interfere:
            return after
        st2 = after
        for loc in c.interfere:
            expr, fld = loc.rsplit(".", 1)
            o = spec_value(self, expr, after)
            st2 = st2.with_heap(fld, z3.Store(self.heap_arr(st2, fld), o.t, S.fresh("interf_" + fld, V)))
        for name, text in c.rely.items():
            g, st2 = spec_bool(self, text, st2, prev=after)
            st2 = st2.assume(g)
        return st2

    def exec_stmt(self, n, st):
        if self.deadline is not None:
            import time as _t

            if _t.time() > self.deadline:
                raise BudgetExhausted("symbolic-execution time budget exhausted")
        m = getattr(self, "x_" + type(n).__name__, None)
        if m is None:
            raise OutsideSubset(f"statement {type(n).__name__} at line {n.lineno}")
        yield from m(n, st)

    def x_Pass(self, n, st):
        yield st, NORMAL

    def x_Break(self, n, st):
        yield st, BREAK

    def x_Continue(self, n, st):
        yield st, CONTINUE

    def x_Global(self, n, st):
        raise OutsideSubset("global statement")

    def x_Expr(self, n, st):
        if isinstance(n.value, ast.Constant):
            yield st, NORMAL  # docstring
            return
        for st1, r in self.eval(n.value, st):
            yield (st1, Outcome("raise", r)) if isinstance(r, Raised) else (st1, NORMAL)

    def x_Return(self, n, st):
        if n.value is None:
            yield st, Outcome("return", SV_NONE)
            return
        for st1, r in self.eval(n.value, st):
            yield (st1, Outcome("raise", r)) if isinstance(r, Raised) else (st1, Outcome("return", r))

    def x_Import(self, n, st):
        for a in n.names:
            st = st.set((a.asname or a.name).split(".")[0], SV("module", a.name if a.asname else a.name.split(".")[0]))
        yield st, NORMAL

    def x_ImportFrom(self, n, st):
        mod = n.module or ""
        if n.level:
            base = st.frame.module.name.split(".")
            base = base[: len(base) - n.level]
            mod = ".".join(base + ([mod] if mod else []))
        for a in n.names:
            sv = None
            if mod in self.repo.modules:
                r = self.repo.resolve_global(self.repo.modules[mod], a.name)
                sv = self.global_to_sv(r, f"{mod}.{a.name}")
            if sv is None and f"{mod}.{a.name}" in self.ext_consts:
                sv = self.ext_consts[f"{mod}.{a.name}"](self)
            if sv is None:
                sv = SV("func", ("ext", f"{mod}.{a.name}"))
            st = st.set(a.asname or a.name, sv)
        yield st, NORMAL

    def x_FunctionDef(self, n, st):
        yield st.set(n.name, SV("func", ("closure", n, st.env, st.frame))), NORMAL

    def x_Assert(self, n, st):
        for st1, r in self.eval(n.test, st):
            if isinstance(r, Raised):
                yield st1, Outcome("raise", r)
                continue
            for st2, c in self.truthy(st1, r):
                if isinstance(c, Raised):
                    yield st2, Outcome("raise", c)
                    continue
                for st3, ok in self.fork(st2, c):
                    yield (st3, NORMAL) if ok else (st3, Outcome("raise", Raised("AssertionError", where=n.lineno)))

    def x_Assign(self, n, st):
        for st1, r in self.eval(n.value, st):
            if isinstance(r, Raised):
                yield st1, Outcome("raise", r)
                continue
            yield from self._assign_all(n.targets, r, st1)

    def _assign_all(self, targets, r, st):
        if not targets:
            yield st, NORMAL
            return
        for st1, e in self.assign_to(targets[0], r, st):
            if isinstance(e, Raised):
                yield st1, Outcome("raise", e)
            else:
                yield from self._assign_all(targets[1:], r, st1)

    def x_AnnAssign(self, n, st):
        if n.value is None:
            yield st, NORMAL
            return
        for st1, r in self.eval(n.value, st):
            if isinstance(r, Raised):
                yield st1, Outcome("raise", r)
                continue
            # a declared container type refines the element types of an empty literal
            ty = parse_type(n.annotation)
            if r.kind in ("list", "set", "dict") and isinstance(ty, (TList, TSet, TDict)):
                r = SV(r.kind, r.t, ty, r.origin)
            for st2, e in self.assign_to(n.target, r, st1):
                yield (st2, Outcome("raise", e)) if isinstance(e, Raised) else (st2, NORMAL)

    def x_AugAssign(self, n, st):
        load = ast.copy_location(ast.BinOp(left=self._as_load(n.target), op=n.op, right=n.value), n)
        ast.fix_missing_locations(load)
        load._aug = True
        for st0, cur in self.eval(self._as_load(n.target), st):
            if isinstance(cur, Raised):
                yield st0, Outcome("raise", cur)
                continue
            for st1, r in self.eval(load, st):
                if isinstance(r, Raised):
                    yield st1, Outcome("raise", r)
                    continue
                if cur.kind in ("set", "list", "dict") and r.kind == cur.kind:
                    # `x |= y`, `x += y` on a mutable container mutate the OBJECT in place: every alias sees it
                    # (a local bound to a heap field writes through; a container parameter would alias the caller's object)
                    for st2, e in self.write_back(n.target, cur, r, st1):
                        yield (st2, Outcome("raise", e)) if isinstance(e, Raised) else (st2, NORMAL)
                    continue
                for st2, e in self.assign_to(n.target, r, st1):
                    yield (st2, Outcome("raise", e)) if isinstance(e, Raised) else (st2, NORMAL)
            return

    def _as_load(self, t):
        t2 = ast.parse(ast.unparse(t), mode="eval").body
        return ast.copy_location(t2, t)

    def x_If(self, n, st):
        for st1, r in self.eval(n.test, st):
            if isinstance(r, Raised):
                yield st1, Outcome("raise", r)
                continue
            for st2, c in self.truthy(st1, r):
                if isinstance(c, Raised):
                    yield st2, Outcome("raise", c)
                    continue
                for st3, side in self.fork(st2, c):
                    yield from self.exec_block(n.body if side else n.orelse, st3)

    def x_Raise(self, n, st):
        if n.exc is None:
            exc = st.ghost.get("current_exc")
            if exc is None:
                raise OutsideSubset("bare raise outside handler")
            yield st, Outcome("raise", exc)
            return
        e = n.exc
        if isinstance(e, ast.Call):
            # evaluate the arguments for their effects / exceptions, keep only the class
            cname = self._exc_name(e.func, st)
            args_nodes = list(e.args) + [k.value for k in e.keywords]
            for st1, vals in self.eval_list(args_nodes, st):
                if isinstance(vals, Raised):
                    yield st1, Outcome("raise", vals)
                else:
                    yield st1, Outcome("raise", Raised(cname, value=(vals[0] if vals else None), where=n.lineno))
            return
        cname = self._exc_name(e, st)
        if cname is None:
            # `raise e` of a caught exception value
            cur = st.env.get(getattr(e, "id", None))
            if cur is not None and cur.kind == "exc":
                yield st, Outcome("raise", cur.t)
                return
            raise OutsideSubset("raise of a non-class expression")
        yield st, Outcome("raise", Raised(cname, where=n.lineno))

    def _exc_name(self, node, st):
        if isinstance(node, ast.Name):
            if node.id in self.exc_parent:
                return node.id
            r = self.repo.resolve_global(st.frame.module, node.id)
            if r and r[0] == "class":
                return r[1].name
            if r and r[0] == "ext":
                return r[1].split(".")[-1]
            return None
        if isinstance(node, ast.Attribute):
            return node.attr
        return None

    def x_Try(self, n, st):
        for st1, out in self.exec_block(n.body, st):
            if out.kind == "raise":
                yield from self._handlers(n, st1, out, 0)
            elif out.kind == "normal" and n.orelse:
                for st2, out2 in self.exec_block(n.orelse, st1):
                    yield from self._finally(n, st2, out2)
            else:
                yield from self._finally(n, st1, out)

    def _handlers(self, n, st, out, idx):
        exc = out.value
        if idx >= len(n.handlers):
            yield from self._finally(n, st, out)
            return
        h = n.handlers[idx]
        if h.type is None:
            names = ["BaseException"]
        elif isinstance(h.type, ast.Tuple):
            names = [self._exc_name(e, st) for e in h.type.elts]
        else:
            names = [self._exc_name(h.type, st)]
        verdicts = [self.is_exc_subclass(exc.cls, nm) for nm in names]
        if any(v is True for v in verdicts):
            sides = [True]
        elif all(v is False for v in verdicts):
            sides = [False]
        else:
            sides = [True, False]
        for side in sides:
            if side:
                st1 = st
                if h.name:
                    st1 = st1.set(h.name, SV("exc", exc, TObj(exc.cls)))
                st1 = st1.with_ghost("current_exc", exc)
                for st2, out2 in self.exec_block(h.body, st1):
                    yield from self._finally(n, st2, out2)
            else:
                yield from self._handlers(n, st, out, idx + 1)

    def _finally(self, n, st, out):
        if not n.finalbody:
            yield st, out
            return
        for st1, out2 in self.exec_block(n.finalbody, st):
            yield (st1, out) if out2.kind == "normal" else (st1, out2)

    def x_With(self, n, st):
        yield from self._with_items(n, 0, st)

    def _with_items(self, n, idx, st):
        if idx == len(n.items):
            yield from self.exec_block(n.body, st)
            return
        item = n.items[idx]
        for st1, mgr in self.eval(item.context_expr, st):
            if isinstance(mgr, Raised):
                yield st1, Outcome("raise", mgr)
                continue
            if mgr.kind == "gencm":
                yield from self._with_gencm(n, idx, st1, mgr, item)
                continue
            for st2, entered in self.call_method(st1, mgr, "__enter__", [], {}, item.context_expr):
                if isinstance(entered, Raised):
                    yield st2, Outcome("raise", entered)
                    continue
                if item.optional_vars is not None:
                    bound = list(self.assign_to(item.optional_vars, entered, st2))
                else:
                    bound = [(st2, None)]
                for st3, e in bound:
                    if isinstance(e, Raised):
                        yield st3, Outcome("raise", e)
                        continue
                    for st4, out in self._with_items(n, idx + 1, st3):
                        if out.kind == "raise":
                            excv = SV("exc", out.value, TObj(out.value.cls))
                            for st5, r in self.call_method(st4, mgr, "__exit__", [excv, excv, excv], {}, item.context_expr):
                                if isinstance(r, Raised):
                                    yield st5, Outcome("raise", r)
                                    continue
                                for st6, c in self.truthy(st5, r):
                                    if isinstance(c, Raised):
                                        yield st6, Outcome("raise", c)
                                        continue
                                    for st7, sw in self.fork(st6, c):
                                        yield (st7, NORMAL) if sw else (st7, out)
                        else:
                            for st5, r in self.call_method(st4, mgr, "__exit__", [SV_NONE, SV_NONE, SV_NONE], {}, item.context_expr):
                                yield (st5, Outcome("raise", r)) if isinstance(r, Raised) else (st5, out)

    def _with_gencm(self, n, idx, st, mgr, item):
        """`with f(...) as x:` where f is a @contextmanager generator function: the generator body is executed from its
        real source; at its `yield` the with-body runs (exceptions of the body are raised AT the yield, so the
        generator's own try/finally/except decide whether the code after the yield runs)."""
        fi, genv = mgr.t
        key = S.fresh_name("cm")
        caller_frame, caller_depth = st.frame, st.depth
        handlers_outside = list(self.yield_handlers)

        def on_yield(st_g, val):
            if st_g.ghost.get("cm_env:" + key) is not None:
                raise OutsideSubset("generator-based context manager yields twice")
            gen_env, gen_frame, gen_depth = st_g.env, st_g.frame, st_g.depth
            st_c = st_g.copy(env=st.env, frame=caller_frame, depth=caller_depth)
            saved = self.yield_handlers
            self.yield_handlers = list(handlers_outside)
            try:
                if item.optional_vars is not None:
                    bound = list(self.assign_to(item.optional_vars, val, st_c))
                else:
                    bound = [(st_c, None)]
                results = []
                for st_b, e in bound:
                    if isinstance(e, Raised):
                        results.append((st_b, Outcome("raise", e)))
                    else:
                        results.extend(self._with_items(n, idx + 1, st_b))
            finally:
                self.yield_handlers = saved
            for st_b, out in results:
                back = st_b.copy(env=gen_env, frame=gen_frame, depth=gen_depth).with_ghost("cm_env:" + key, st_b.env)
                if out.kind == "normal":
                    yield back, SV_NONE
                elif out.kind == "raise":
                    yield back, out.value
                else:
                    yield back.with_ghost("cm_pending:" + key, out), Raised("GeneratorExit", where="generator closed")

        frame = Frame(fi.module, fi, fi.cls, fi.fq)
        st_g0 = st.copy(env=dict(genv), frame=frame, depth=st.depth + 1)
        self.yield_handlers.append(on_yield)
        try:
            finished = list(self.exec_block(fi.node.body, st_g0))
        finally:
            self.yield_handlers.pop()
        for st_e, out in finished:
            cenv = st_e.ghost.get("cm_env:" + key)
            pending = st_e.ghost.get("cm_pending:" + key)
            st_back = st_e.copy(env=cenv if cenv is not None else st.env, frame=caller_frame, depth=caller_depth)
            if cenv is None and out.kind != "raise":
                yield st_back, Outcome("raise", Raised("RuntimeError", where="generator didn't yield"))
            elif out.kind in ("normal", "return"):
                yield st_back, (pending if pending is not None else NORMAL)
            elif out.kind == "raise":
                if out.value.cls == "GeneratorExit" and pending is not None:
                    yield st_back, pending
                else:
                    yield st_back, out
            else:
                raise OutsideSubset("break/continue escaping a generator body")

    # ---- loops ---------------------------------------------------------------------------------
    def loop_ordinal(self, n, st):
        fi = st.frame.func
        key = id(fi.node) if fi is not None else None
        if key not in self.loop_ordinals:
            ords = {}
            if fi is not None:
                k = 0
                for sub in ast.walk(fi.node):
                    pass
                # source order: sort loop nodes by (lineno, col)
                loops = [s for s in ast.walk(fi.node) if isinstance(s, (ast.For, ast.While))]
                loops.sort(key=lambda s: (s.lineno, s.col_offset))
                for k, s in enumerate(loops):
                    ords[id(s)] = k
            self.loop_ordinals[key] = ords
        return self.loop_ordinals[key].get(id(n))

    def loop_spec(self, n, st):
        fi = st.frame.func
        if fi is None:
            return None
        c = self.current_contract if (self.current_contract is not None and self.current_contract.func.split("#")[0] == fi.fq) else self.contracts.get(fi.fq)
        if c is None:
            return None
        return c.loops.get(self.loop_ordinal(n, st))

    def x_While(self, n, st):
        raise OutsideSubset(f"while loop at line {n.lineno}")

    def x_For(self, n, st):
        from .loops import exec_for

        yield from exec_for(self, n, st)

    # ------------------------------------------------------------------------------------------
    # assignment targets
    # ------------------------------------------------------------------------------------------
    def assign_to(self, t, sv, st):
        """generator of (state, None | Raised)"""
        if isinstance(t, ast.Name):
            yield st.set(t.id, sv), None
        elif isinstance(t, ast.Attribute):
            for st1, o in self.eval(t.value, st):
                if isinstance(o, Raised):
                    yield st1, o
                    continue
                yield from self.store_attr(st1, o, t.attr, sv, t)
        elif isinstance(t, ast.Subscript):
            for st1, c in self.eval(t.value, st):
                if isinstance(c, Raised):
                    yield st1, c
                    continue
                for st2, k in self.eval(t.slice, st1):
                    if isinstance(k, Raised):
                        yield st2, k
                        continue
                    for st3, newc in self.setitem(st2, c, k, sv):
                        if isinstance(newc, Raised):
                            yield st3, newc
                        else:
                            yield from self.write_back(t.value, c, newc, st3)
        elif isinstance(t, (ast.Tuple, ast.List)):
            n = len(t.elts)
            for st1, items in self.unpack(st, sv, n):
                if isinstance(items, Raised):
                    yield st1, items
                else:
                    yield from self._assign_seq(t.elts, items, st1)
        else:
            raise OutsideSubset(f"assignment target {type(t).__name__}")

    def _assign_seq(self, elts, items, st):
        if not elts:
            yield st, None
            return
        for st1, e in self.assign_to(elts[0], items[0], st):
            if isinstance(e, Raised):
                yield st1, e
            else:
                yield from self._assign_seq(elts[1:], items[1:], st1)

    def write_back(self, node, old, new, st):
        """After computing a new value of a container reached through `node`, store it where it came from.
        In-place mutation never goes through __setattr__ / property setters: attribute targets are raw field writes."""
        if isinstance(node, ast.Attribute):
            for st1, o in self.eval(node.value, st):
                if isinstance(o, Raised):
                    yield st1, o
                elif o.kind == "v":
                    yield self.write_field(st1, o.t, node.attr, new), None
                else:
                    raise OutsideSubset(f"in-place mutation through attribute of {o.kind}")
            return
        if isinstance(node, ast.Subscript):
            for st1, c in self.eval(node.value, st):
                if isinstance(c, Raised):
                    yield st1, c
                    continue
                for st2, k in self.eval(node.slice, st1):
                    if isinstance(k, Raised):
                        yield st2, k
                        continue
                    for st3, newc in self.setitem(st2, c, k, new):
                        if isinstance(newc, Raised):
                            yield st3, newc
                        else:
                            yield from self.write_back(node.value, c, newc, st3)
            return
        for st1, e in self.assign_to(node, new, st):
            if isinstance(e, Raised):
                yield st1, e
                continue
            if isinstance(node, ast.Name) and old.origin is not None and old.origin[0] == "heap":
                # the local is an alias of a heap location: write through
                _, o, field = old.origin
                new2 = SV(new.kind, new.t, new.ty, old.origin)
                st1 = st1.set(node.id, new2)
                st1 = self.write_field(st1, o, field, new)
            elif isinstance(node, ast.Name) and old.origin is not None and old.origin[0] == "param":
                raise OutsideSubset(f"mutation of container parameter {node.id} (caller aliasing not modelled)")
            yield st1, None

    def unpack(self, st, sv, n):
        if sv.kind == "tuple":
            if len(sv.t) != n:
                yield st, Raised("ValueError", where="unpack")
            else:
                yield st, list(sv.t)
        elif sv.kind == "list":
            ln, arr = sv.t
            elem = sv.ty.elem if isinstance(sv.ty, TList) else TAny
            for st1, ok in self.fork(st, ln == n):
                if ok:
                    items = []
                    for i in range(n):
                        st1, u = self.unboxed(st1, arr[i], elem)
                        items.append(u)
                    yield st1, items
                else:
                    yield st1, Raised("ValueError", where="unpack")
        elif sv.kind == "v":
            inner = strip_opt(sv.ty)
            if isinstance(inner, TTuple):
                st1, u = self.unboxed(st, sv.t, inner)
                yield from self.unpack(st1, u, n)
            elif isinstance(inner, TObj) and inner.cls in self.named_tuples():
                st1, u = self.unboxed(st, sv.t, self.named_tuples()[inner.cls][1])
                yield from self.unpack(st1, u, n)
            elif inner == TAny and n == 2:
                for st1, ok in self.fork(st, V.is_pair(sv.t)):
                    if ok:
                        yield st1, [sv_v(V.fst(sv.t), TAny), sv_v(V.snd(sv.t), TAny)]
                    else:
                        yield st1, Raised("TypeError", where="unpack of a non-pair")
            else:
                raise OutsideSubset(f"unpack of {sv.ty}")
        else:
            raise OutsideSubset(f"unpack of {sv.kind}")

    def named_tuples(self):
        if not hasattr(self, "_nt"):
            self._nt = {}
            for c in set(self.repo.classes.values()):
                if "NamedTuple" in c.bases:
                    fields = []
                    for stn in c.node.body:
                        if isinstance(stn, ast.AnnAssign) and isinstance(stn.target, ast.Name):
                            fields.append((stn.target.id, parse_type(stn.annotation), stn.value))
                    self._nt[c.name] = (fields, TTuple([f[1] for f in fields]))
        return self._nt

    def store_attr(self, st, o, attr, sv, node):
        if o.kind != "v":
            raise OutsideSubset(f"attribute store on {o.kind}")
        inner = strip_opt(o.ty)
        clsname = inner.cls if isinstance(inner, TObj) else None
        ci = self.repo.classes.get(clsname) if clsname else None
        if ci is not None:
            setter = self.repo.find_setter(ci, attr)
            if setter is not None:
                for st1, r in self.call_repo(setter, [o, sv], {}, st):
                    yield (st1, r) if isinstance(r, Raised) else (st1, None)
                return
            sa = self.repo.find_method(ci, "__setattr__")
            if sa is not None and not st.ghost.get("in_setattr"):
                for st1, r in self.call_repo(sa, [o, sv_str(attr), sv], {}, st.with_ghost("in_setattr", True)):
                    st1 = st1.with_ghost("in_setattr", False)
                    yield (st1, r) if isinstance(r, Raised) else (st1, None)
                return
        yield self.write_field(st, o.t, attr, sv), None

    # ------------------------------------------------------------------------------------------
    # expressions
    # ------------------------------------------------------------------------------------------
    def eval(self, n, st):
        m = getattr(self, "e_" + type(n).__name__, None)
        if m is None:
            raise OutsideSubset(f"expression {type(n).__name__} at line {getattr(n, 'lineno', '?')}")
        yield from m(n, st)

    def eval_list(self, nodes, st):
        """sequential evaluation: yields (state, [SV...] | Raised)"""
        if not nodes:
            yield st, []
            return
        for st1, r in self.eval(nodes[0], st):
            if isinstance(r, Raised):
                yield st1, r
                continue
            for st2, rest in self.eval_list(nodes[1:], st1):
                if isinstance(rest, Raised):
                    yield st2, rest
                else:
                    yield st2, [r] + rest

    def e_Constant(self, n, st):
        v = n.value
        if v is None:
            yield st, SV_NONE
        elif isinstance(v, bool):
            yield st, sv_bool(v)
        elif isinstance(v, int):
            yield st, sv_int(v)
        elif isinstance(v, str):
            yield st, sv_str(v)
        elif isinstance(v, bytes):
            yield st, sv_v(S.fresh("bytes", V), TAny)
        elif v is Ellipsis:
            yield st, SV_NONE
        else:
            raise OutsideSubset(f"constant {v!r}")

    def e_Name(self, n, st):
        if n.id in st.env:
            yield st, st.env[n.id]
            return
        sv = self.lookup_global(n.id, st)
        if sv is None:
            raise OutsideSubset(f"unresolved name {n.id} in {st.frame.module.name} (line {n.lineno}; locals: {sorted(st.env)})")
        yield st, sv

    def lookup_global(self, name, st):
        mod = st.frame.module
        if mod is not None:
            r = self.repo.resolve_global(mod, name)
            if r is not None:
                return self.global_to_sv(r, f"{mod.name}.{name}")
        if name in ("str", "bool", "int", "list", "set", "dict", "tuple", "object"):
            return SV("class", name)
        if name in self.builtin_models:
            return SV("func", ("builtin", name))
        if name == "__file__":
            return sv_str("<__file__:" + (mod.name if mod else "?") + ">")
        if name == "__name__":
            return sv_str(mod.name if mod else "?")
        if name in self.exc_parent:
            return SV("class", name)
        if self.spec_ctx and name in self.repo.classes:
            return SV("class", name)  # specifications may name any class of the package
        if self.spec_ctx:
            # ... any module-level function of the package whose name is unique
            hits = [m.funcs[name] for m in self.repo.modules.values() if m.name not in self.repo.ghost and name in m.funcs]
            if len(hits) == 1:
                return SV("func", ("repo", hits[0], None))
            # ... and any modelled external module / constant (function-local imports are not in scope in the pre-state)
            if any(k.startswith(name + ".") for k in self.ext_models):
                return SV("module", name)
            for k, mk in self.ext_consts.items():
                if k.endswith("." + name):
                    return mk(self)
        return None

    def global_to_sv(self, r, key):
        if r is None:
            return None
        if r[0] == "class":
            return SV("class", r[1].name)
        if r[0] == "func":
            return SV("func", ("repo", r[1], None))
        if r[0] == "module":
            return SV("module", r[1])
        if r[0] == "ext":
            short = r[1].split(".")[-1]
            if short in self.exc_parent or short in self.opaque_classes:
                return SV("class", short)
            return SV("func", ("ext", r[1]))
        if r[0] == "const":
            expr, module = r[1], r[2]
            return self.eval_const(expr, module, key)
        return None

    def eval_const(self, expr, module, key):
        """Module-level constants: literals, tuples of classes, singletons built by calling a repo class."""
        if isinstance(expr, ast.Call):
            fn = expr.func
            nm = fn.id if isinstance(fn, ast.Name) else None
            r = self.repo.resolve_global(module, nm) if nm else None
            if r and r[0] == "class":
                return self.global_object(f"{module.name}.{key.split('.')[-1]}", r[1].name)
            # e.g. logging.getLogger(__name__)
            return self.global_object(key, "<opaque:" + ast.unparse(fn) + ">")
        st = State(frame=Frame(module))
        res = list(self.eval(expr, st))
        if len(res) != 1 or isinstance(res[0][1], Raised):
            raise OutsideSubset(f"module constant {key}")
        return res[0][1]

    def e_NamedExpr(self, n, st):
        for st1, r in self.eval(n.value, st):
            if isinstance(r, Raised):
                yield st1, r
            else:
                yield st1.set(n.target.id, r), r

    def e_IfExp(self, n, st):
        for st1, r in self.eval(n.test, st):
            if isinstance(r, Raised):
                yield st1, r
                continue
            for st2, c in self.truthy(st1, r):
                if isinstance(c, Raised):
                    yield st2, c
                    continue
                for st3, side in self.fork(st2, c):
                    yield from self.eval(n.body if side else n.orelse, st3)

    def e_BoolOp(self, n, st):
        if self.spec_ctx:
            # specification mode: and/or are logical connectives over (merged) truth values, no path forking;
            # each operand is evaluated under the hypothesis that evaluation reaches it (short-circuit semantics)
            from .spec import _bool_of

            acc = None
            cur = st
            hyp = st
            for v in n.values:
                b, hyp2 = _bool_of(self, v, hyp)
                cur = cur.with_facts(hyp2.facts[len(hyp.facts):])
                if isinstance(n.op, ast.And):
                    acc = b if acc is None else And(acc, b)
                    hyp = hyp2.assume(b)
                else:
                    acc = b if acc is None else Or(acc, b)
                    hyp = hyp2.assume(Not(b))
            yield cur, sv_bool(acc)
            return
        yield from self._boolop(n, n.values, st)

    def _boolop(self, n, values, st):
        head = values[0]
        for st1, r in self.eval(head, st):
            if isinstance(r, Raised) or len(values) == 1:
                yield st1, r
                continue
            for st2, c in self.truthy(st1, r):
                if isinstance(c, Raised):
                    yield st2, c
                    continue
                for st3, side in self.fork(st2, c):
                    stop = (not side) if isinstance(n.op, ast.And) else side
                    if stop:
                        yield st3, r
                    else:
                        yield from self._boolop(n, values[1:], st3)

    def e_UnaryOp(self, n, st):
        for st1, r in self.eval(n.operand, st):
            if isinstance(r, Raised):
                yield st1, r
                continue
            if isinstance(n.op, ast.Not):
                for st2, c in self.truthy(st1, r):
                    yield (st2, c) if isinstance(c, Raised) else (st2, sv_bool(Not(c)))
            elif isinstance(n.op, ast.USub):
                yield st1, sv_int(-self.as_int(r))
            else:
                raise OutsideSubset("unary op")

    def e_Tuple(self, n, st):
        if any(isinstance(e, ast.Starred) for e in n.elts):
            raise OutsideSubset("starred tuple display")
        for st1, vals in self.eval_list(n.elts, st):
            yield (st1, vals) if isinstance(vals, Raised) else (st1, sv_tuple(vals))

    def e_List(self, n, st):
        for st1, vals in self.eval_list(n.elts, st):
            if isinstance(vals, Raised):
                yield st1, vals
                continue
            yield self.make_list(st1, vals)

    def make_list(self, st, vals, elem=None):
        arr = S.NONE_SEQ
        f = Facts()
        for i, v in enumerate(vals):
            arr = z3.Store(arr, i, box(v, f))
        tys = {repr(v.ty) for v in vals}
        if elem is None:
            elem = vals[0].ty if len(tys) == 1 else TAny
        return st.with_facts(f), sv_list(z3.IntVal(len(vals)), arr, elem)

    def e_Set(self, n, st):
        for st1, vals in self.eval_list(n.elts, st):
            if isinstance(vals, Raised):
                yield st1, vals
                continue
            arr = S.EMPTY_SET
            f = Facts()
            for v in vals:
                arr = z3.Store(arr, box(v, f), z3.BoolVal(True))
            tys = {repr(v.ty) for v in vals}
            yield st1.with_facts(f), sv_set(arr, vals[0].ty if len(tys) == 1 else TAny)

    def e_Dict(self, n, st):
        if any(k is None for k in n.keys):
            yield from self._dict_display_unpack(n, st)
            return
        for st1, ks in self.eval_list(n.keys, st):
            if isinstance(ks, Raised):
                yield st1, ks
                continue
            for st2, vs in self.eval_list(n.values, st1):
                if isinstance(vs, Raised):
                    yield st2, vs
                    continue
                dom, mp = S.EMPTY_SET, S.NONE_MAP
                f = Facts()
                for k, v in zip(ks, vs):
                    kb = box(k, f)
                    dom = z3.Store(dom, kb, z3.BoolVal(True))
                    mp = z3.Store(mp, kb, box(v, f))
                kt = ks[0].ty if ks and len({repr(k.ty) for k in ks}) == 1 else TAny
                vt = vs[0].ty if vs and len({repr(v.ty) for v in vs}) == 1 else TAny
                yield st2.with_facts(f), sv_dict(dom, mp, kt, vt)

    def _dict_display_unpack(self, n, st):
        """{**a, k: v, **b}: entries are merged left to right, a later entry wins (language reference 6.2.7)"""
        x = S.fresh("x", V)
        nodes = [v if k is None else ast.Tuple(elts=[k, v], ctx=ast.Load()) for k, v in zip(n.keys, n.values)]
        for st1, vals in self.eval_list(nodes, st):
            if isinstance(vals, Raised):
                yield st1, vals
                continue
            dom, mp = S.EMPTY_SET, S.NONE_MAP
            f = Facts()
            ty = None
            for k, v in zip(n.keys, vals):
                if k is None:
                    if v.kind != "dict":
                        raise OutsideSubset(f"** of {v.kind} in a dict display")
                    dom, mp = z3.Lambda([x], Or(dom[x], v.t[0][x])), z3.Lambda([x], z3.If(v.t[0][x], v.t[1][x], mp[x]))
                    ty = ty or v.ty
                else:
                    kv, vv = v.t
                    kb = box(kv, f)
                    dom = z3.Store(dom, kb, z3.BoolVal(True))
                    mp = z3.Store(mp, kb, box(vv, f))
            yield st1.with_facts(f), SV("dict", (dom, mp), ty or TDict(TAny, TAny))

    def e_JoinedStr(self, n, st):
        parts = []
        nodes = []
        for v in n.values:
            if isinstance(v, ast.Constant):
                parts.append(("c", v.value))
            else:
                parts.append(("e", len(nodes)))
                nodes.append(v.value)
        for st1, vals in self.eval_list(nodes, st):
            if isinstance(vals, Raised):
                yield st1, vals
                continue
            yield from self._join_parts(st1, parts, vals, 0, [])

    def _join_parts(self, st, parts, vals, i, acc):
        if i == len(parts):
            if not acc:
                yield st, sv_str("")
            elif len(acc) == 1:
                yield st, sv_str(acc[0])
            else:
                yield st, sv_str(z3.Concat(*acc))
            return
        kind, p = parts[i]
        if kind == "c":
            yield from self._join_parts(st, parts, vals, i + 1, acc + [z3.StringVal(p)])
        else:
            for st1, s in self.to_str(st, vals[p]):
                if isinstance(s, Raised):
                    yield st1, s
                else:
                    yield from self._join_parts(st1, parts, vals, i + 1, acc + [s.t])

    def to_str(self, st, sv):
        """str(x): generator of (state, SV str | Raised)"""
        k = sv.kind
        if k == "str":
            yield st, sv
        elif k == "int":
            yield st, sv_str(z3.IntToStr(sv.t)) if False else sv_str(self.int_to_str(sv.t))
        elif k == "bool":
            yield st, sv_str(z3.If(sv.t, z3.StringVal("True"), z3.StringVal("False")))
        elif k == "none":
            yield st, sv_str("None")
        elif k == "pathobj":
            yield st, sv_str(sv.t)
        elif k == "exc":
            yield st, sv_str(z3.Function("exc_message", S.Int, S.Str)(z3.IntVal(class_id(sv.t.cls))))
        elif k == "v":
            inner = strip_opt(sv.ty)
            if isinstance(inner, TObj) and inner.cls in self.repo.classes and not isinstance(sv.ty, TOpt):
                fi = self.repo.find_method(self.repo.classes[inner.cls], "__str__")
                if fi is not None:
                    for st1, r in self.call_repo(fi, [sv], {}, st):
                        yield st1, r
                    return
            if inner == TStr and not isinstance(sv.ty, TOpt):
                yield st, sv_str(V.sval(sv.t))
                return
            yield from self.dyn_str(st, sv)
        else:
            # containers: opaque rendering
            st1, b = self.boxed(st, sv)
            yield st1, sv_str(z3.Function("repr_of", V, S.Str)(b))

    def int_to_str(self, t):
        return z3.If(t >= 0, z3.IntToStr(t), z3.Concat(z3.StringVal("-"), z3.IntToStr(-t)))

    def dyn_str(self, st, sv):
        """str() of a dynamically typed value: case split on primitives, user classes via their __str__."""
        v = sv.t
        cands = []
        ty = sv.ty
        inner = strip_opt(ty)
        objs = []
        if isinstance(inner, TObj):
            objs = [inner.cls]
        elif isinstance(inner, TUnion):
            objs = [i.cls for i in inner.items if isinstance(i, TObj)]
        for st1, isn in self.fork(st, V.is_none(v)):
            if isn:
                yield st1, sv_str("None")
                continue
            for st2, iss in self.fork(st1, V.is_str_(v)):
                if iss:
                    yield st2, sv_str(V.sval(v))
                    continue
                if not objs:
                    yield st2, sv_str(z3.Function("str_of", V, S.Str)(v))
                    continue
                yield from self._dyn_str_obj(st2, v, objs)

    def _dyn_str_obj(self, st, v, objs):
        if len(objs) == 1:
            cls = objs[0]
            ci = self.repo.classes.get(cls)
            fi = ci and self.repo.find_method(ci, "__str__")
            if fi is None:
                yield st, sv_str(z3.Function("str_of", V, S.Str)(v))
            else:
                yield from self.call_repo(fi, [sv_v(v, TObj(cls))], {}, st)
            return
        head, rest = objs[0], objs[1:]
        for st1, ish in self.fork(st, self.instance_of(v, head)):
            if ish:
                yield from self._dyn_str_obj(st1, v, [head])
            else:
                yield from self._dyn_str_obj(st1, v, rest)

    def e_Yield(self, n, st):
        if not self.yield_handlers:
            raise OutsideSubset("yield outside a modelled generator-based context manager")
        if n.value is None:
            yield from self.yield_handlers[-1](st, SV_NONE)
            return
        for st1, v in self.eval(n.value, st):
            if isinstance(v, Raised):
                yield st1, v
            else:
                yield from self.yield_handlers[-1](st1, v)

    def e_Lambda(self, n, st):
        yield st, SV("func", ("closure", n, st.env, st.frame))

    def e_Starred(self, n, st):
        raise OutsideSubset("starred expression outside call")

    def e_Slice(self, n, st):
        nodes = [x for x in (n.lower, n.upper, n.step) if x is not None]
        for st1, vals in self.eval_list(nodes, st):
            if isinstance(vals, Raised):
                yield st1, vals
                continue
            it = iter(vals)
            lo = next(it) if n.lower is not None else None
            hi = next(it) if n.upper is not None else None
            step = next(it) if n.step is not None else None
            yield st1, SV("slice", (lo, hi, step))

    # ---- operators -------------------------------------------------------------------------------
    def e_BinOp(self, n, st):
        for st1, vals in self.eval_list([n.left, n.right], st):
            if isinstance(vals, Raised):
                yield st1, vals
                continue
            yield from self.binop(st1, n.op, vals[0], vals[1], n)

    def binop(self, st, op, a, b, n):
        from .builtins_model import binop

        yield from binop(self, st, op, a, b, n)

    def e_Compare(self, n, st):
        yield from self._compare(n, n.left, list(zip(n.ops, n.comparators)), st, None)

    def _compare(self, n, left, rest, st, leftval):
        if leftval is None:
            for st1, lv in self.eval(left, st):
                if isinstance(lv, Raised):
                    yield st1, lv
                else:
                    yield from self._compare(n, left, rest, st1, lv)
            return
        op, rnode = rest[0]
        for st1, rv in self.eval(rnode, st):
            if isinstance(rv, Raised):
                yield st1, rv
                continue
            for st2, c in self.compare(st1, op, leftval, rv):
                if isinstance(c, Raised) or len(rest) == 1:
                    yield st2, c
                    continue
                for st3, side in self.fork(st2, c.t):
                    if not side:
                        yield st3, sv_bool(False)
                    else:
                        yield from self._compare(n, rnode, rest[1:], st3, rv)

    def compare(self, st, op, a, b):
        from .builtins_model import compare

        yield from compare(self, st, op, a, b)

    # ---- attribute / subscript -----------------------------------------------------------------
    def e_Attribute(self, n, st):
        for st1, o in self.eval(n.value, st):
            if isinstance(o, Raised):
                yield st1, o
            else:
                yield from self.load_attr(st1, o, n.attr, n)

    def load_attr(self, st, o, attr, node=None):
        from .builtins_model import load_attr

        yield from load_attr(self, st, o, attr, node)

    def e_Subscript(self, n, st):
        for st1, c in self.eval(n.value, st):
            if isinstance(c, Raised):
                yield st1, c
                continue
            for st2, k in self.eval(n.slice, st1):
                if isinstance(k, Raised):
                    yield st2, k
                else:
                    yield from self.getitem(st2, c, k)

    def getitem(self, st, c, k):
        from .builtins_model import getitem

        yield from getitem(self, st, c, k)

    def setitem(self, st, c, k, v):
        from .builtins_model import setitem

        yield from setitem(self, st, c, k, v)

    # ---- comprehensions ---------------------------------------------------------------------------
    def e_ListComp(self, n, st):
        from .loops import comprehension

        yield from comprehension(self, n, st, "list")

    def e_SetComp(self, n, st):
        from .loops import comprehension

        yield from comprehension(self, n, st, "set")

    def e_DictComp(self, n, st):
        from .loops import comprehension

        yield from comprehension(self, n, st, "dict")

    def e_GeneratorExp(self, n, st):
        # a generator object is only meaningful to its consumer (any/all/list/set/sorted/join/next ...)
        yield st, SV("genexp", (n, st.env, st.frame))

    # ---- calls -------------------------------------------------------------------------------------
    def e_Call(self, n, st):
        from .calls import eval_call

        yield from eval_call(self, n, st)

    def call_repo(self, fi, args, kwargs, st, node=None):
        from .calls import call_repo

        yield from call_repo(self, fi, args, kwargs, st, node)

    def call_method(self, st, recv, name, args, kwargs, recv_node):
        from .calls import call_method

        yield from call_method(self, st, recv, name, args, kwargs, recv_node)

    def call_value(self, st, f, args, kwargs, node=None):
        from .calls import call_value

        yield from call_value(self, st, f, args, kwargs, node)

    # ---- pure (merged) evaluation, used for comprehension bodies and specifications ------------------
    def eval_merged(self, node, st):
        """Evaluate a *pure* expression on all paths and merge the results into one term (ite over the branch
        conditions).  Returns (SV | None, raise_cond, state): raise_cond is the z3 condition under which the
        evaluation raises; the returned state is `st` plus the ground facts produced on any path."""
        results = list(self.eval(node, st))
        return self.merge_results(results, st)

    def merge_results(self, results, st0):
        base = len(st0.pc)
        ok, bad = [], []
        facts = []
        for st1, r in results:
            delta = And(*st1.pc[base:])
            facts.extend(st1.facts[len(st0.facts):])
            if isinstance(r, Raised):
                bad.append(delta)
            else:
                ok.append((delta, r))
        st = st0.with_facts(facts)
        raise_cond = Or(*bad)
        if not ok:
            return None, raise_cond, st
        if len(ok) == 1:
            return ok[0][1], raise_cond, st
        self._merge_facts = Facts()
        sv = self.merge_values(ok)
        return sv, raise_cond, st.with_facts(self._merge_facts)

    def merge_values(self, ok):
        """ok: list of (guard, SV) with guards partitioning the normal-exit space"""
        kinds = {r.kind for _, r in ok}
        if len(kinds) > 1:
            if kinds & {"func", "class", "module", "genexp", "slice", "exc"}:
                raise OutsideSubset(f"merge of {kinds}")
            f = self._merge_facts
            terms = [(d, box(r, f)) for d, r in ok]
            acc = terms[-1][1]
            for d, t in reversed(terms[:-1]):
                acc = z3.If(d, t, acc)
            tys = {repr(r.ty) for _, r in ok}
            return sv_v(acc, _join_types([r.ty for _, r in ok]))
        k = kinds.pop()

        def ite_chain(sel):
            acc = sel(ok[-1][1])
            for d, r in reversed(ok[:-1]):
                acc = z3.If(d, sel(r), acc)
            return acc

        proto = ok[0][1]
        if k in ("int", "bool", "str", "set", "v"):
            return SV(k, ite_chain(lambda r: r.t), proto.ty)
        if k == "none":
            return SV_NONE
        if k in ("list", "dict"):
            return SV(k, (ite_chain(lambda r: r.t[0]), ite_chain(lambda r: r.t[1])), proto.ty)
        if k == "graph":
            return SV(k, tuple(ite_chain(lambda r, i=i: r.t[i]) for i in range(4)), proto.ty)
        if k == "tuple":
            n = len(proto.t)
            if any(len(r.t) != n for _, r in ok):
                raise OutsideSubset("merge of tuples of different length")
            return sv_tuple([self.merge_values([(d, r.t[i]) for d, r in ok]) for i in range(n)])
        raise OutsideSubset(f"merge of {k}")
