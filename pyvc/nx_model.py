"""Assumed contract of networkx.DiGraph and the few nx functions the package uses (DESIGN §3.2 A).

A graph value is (nodes: SetS, nattr: (node,key)->V with none == absent, edges: RelS, eattr: (u,v)->(key->V)).
Node identity is z3 equality on V (interning assumption A_eq for the repository's model classes).
The executable twin of this model is in bounded/nx_conformance.py and is compared with the real library.
"""
import ast

import z3

from . import sorts as S
from .sorts import V
from .state import And, Not, Or, OutsideSubset, Raised
from .values import (
    SV,
    SV_NONE,
    Facts,
    TAny,
    TDict,
    TGraph,
    TInt,
    TList,
    TStr,
    box,
    strip_opt,
    sv_bool,
    sv_dict,
    sv_graph,
    sv_int,
    sv_list,
    sv_set,
    sv_str,
    sv_tuple,
    sv_v,
)

EAttrS = z3.ArraySort(V, V, S.MapS)
_in_x = z3.Function("in_deg_extra", S.RelS, V, S.Int)
_out_x = z3.Function("out_deg_extra", S.RelS, V, S.Int)
in_deg = z3.Function("in_deg", S.RelS, V, S.Int)
out_deg = z3.Function("out_deg", S.RelS, V, S.Int)
tot_deg = z3.Function("tot_deg", S.RelS, V, S.Int)


def _abs(t):
    return z3.If(t >= 0, t, -t)


def deg_def(e, n):
    """defining equations of the degree terms for this (edge relation, node): 0 iff no such edge, else positive"""
    u = S.fresh("du", V)
    return [
        in_deg(e, n) == z3.If(z3.Exists([u], e[u, n]), 1 + _abs(_in_x(e, n)), z3.IntVal(0)),
        out_deg(e, n) == z3.If(z3.Exists([u], e[n, u]), 1 + _abs(_out_x(e, n)), z3.IntVal(0)),
        tot_deg(e, n) == in_deg(e, n) + out_deg(e, n),
    ]


relabel_pick = z3.Function("relabel_pick", S.SetS, V, V, S.Bool)
simple_paths_len = z3.Function("simple_paths_len", S.RelS, V, V, S.Int)
simple_paths_arr = z3.Function("simple_paths_arr", S.RelS, V, V, S.SeqS)


def empty_graph():
    a, b = S.fresh("a", V), S.fresh("b", V)
    return sv_graph(S.EMPTY_SET, z3.K(V, z3.K(V, S.NONE)) if False else z3.Lambda([a, b], S.NONE), z3.Lambda([a, b], z3.BoolVal(False)), z3.Lambda([a, b], S.NONE_MAP))


def deg_facts(e):
    return []


def _attr_merge(engine, st, kwargs):
    """keyword attributes of add_node/add_edge -> (state, dom SetS, map MapS)"""
    dom, mp = S.EMPTY_SET, S.NONE_MAP
    f = Facts()
    extra = kwargs.get("**")
    if extra is not None:
        dom, mp = extra.t
    for k, v in kwargs.items():
        if k == "**":
            continue
        kb = V.str_(z3.StringVal(k))
        dom = z3.Store(dom, kb, z3.BoolVal(True))
        mp = z3.Store(mp, kb, box(v, f))
    return st.with_facts(f), dom, mp


def _mut(engine, st, recv, recv_node, new, result=SV_NONE):
    if recv_node is None:
        raise OutsideSubset("graph mutation on a temporary")
    for st1, e in engine.write_back(recv_node, recv, new, st):
        yield (st1, e) if isinstance(e, Raised) else (st1, result)


def add_node_val(g, n, dom, mp):
    nodes, na, e, ea = g.t
    a, k = S.fresh("a", V), S.fresh("k", V)
    na2 = z3.Lambda([a, k], z3.If(And(a == n, dom[k]), mp[k], z3.If(And(a == n, Not(nodes[n])), S.NONE, na[a, k])))
    return sv_graph(z3.Store(nodes, n, z3.BoolVal(True)), na2, e, ea)


def m_add_node(engine, st, recv, args, kwargs, recv_node):
    st, n = engine.boxed(st, args[0])
    st, dom, mp = _attr_merge(engine, st, kwargs)
    for st1, isn in engine.fork(st, V.is_none(n)):
        if isn:
            yield st1, Raised("ValueError", where="None cannot be a node")
        else:
            yield from _mut(engine, st1, recv, recv_node, add_node_val(recv, n, dom, mp))


def add_edge_val(g, u, v, dom, mp):
    nodes, na, e, ea = g.t
    a, k = S.fresh("a", V), S.fresh("k", V)
    # endpoints that are new get an empty attribute dict
    na2 = z3.Lambda([a, k], z3.If(And(Or(a == u, a == v), Not(nodes[a])), S.NONE, na[a, k]))
    old = ea[u, v]
    newattrs = z3.Lambda([k], z3.If(dom[k], mp[k], z3.If(e[u, v], old[k], S.NONE)))
    return sv_graph(z3.Store(z3.Store(nodes, u, z3.BoolVal(True)), v, z3.BoolVal(True)), na2, z3.Store(e, u, v, z3.BoolVal(True)), z3.Store(ea, u, v, newattrs))


def m_add_edge(engine, st, recv, args, kwargs, recv_node):
    st, u = engine.boxed(st, args[0])
    st, v = engine.boxed(st, args[1])
    st, dom, mp = _attr_merge(engine, st, kwargs)
    for st1, isn in engine.fork(st, Or(V.is_none(u), V.is_none(v))):
        if isn:
            yield st1, Raised("ValueError", where="None cannot be a node")
        else:
            yield from _mut(engine, st1, recv, recv_node, add_edge_val(recv, u, v, dom, mp))


def remove_node_val(g, n):
    nodes, na, e, ea = g.t
    a, b = S.fresh("a", V), S.fresh("b", V)
    return sv_graph(z3.Store(nodes, n, z3.BoolVal(False)), na, z3.Lambda([a, b], And(e[a, b], a != n, b != n)), ea)


def m_remove_node(engine, st, recv, args, kwargs, recv_node):
    st, n = engine.boxed(st, args[0])
    for st1, has in engine.fork(st, recv.t[0][n]):
        if has:
            yield from _mut(engine, st1, recv, recv_node, remove_node_val(recv, n))
        else:
            yield st1, Raised("NetworkXError", where="remove_node: not in graph")


def m_remove_edge(engine, st, recv, args, kwargs, recv_node):
    st, u = engine.boxed(st, args[0])
    st, v = engine.boxed(st, args[1])
    nodes, na, e, ea = recv.t
    for st1, has in engine.fork(st, e[u, v]):
        if has:
            yield from _mut(engine, st1, recv, recv_node, sv_graph(nodes, na, z3.Store(e, u, v, z3.BoolVal(False)), ea))
        else:
            yield st1, Raised("NetworkXError", where="remove_edge: not in graph")


def m_remove_edges_from(engine, st, recv, args, kwargs, recv_node):
    from .builtins_model import to_set

    for st1, sset in to_set(engine, st, args[0]):
        if isinstance(sset, Raised):
            yield st1, sset
            continue
        nodes, na, e, ea = recv.t
        a, b = S.fresh("a", V), S.fresh("b", V)
        new = sv_graph(nodes, na, z3.Lambda([a, b], And(e[a, b], Not(sset.t[V.pair(a, b)]))), ea)
        yield from _mut(engine, st1, recv, recv_node, new)


def m_remove_nodes_from(engine, st, recv, args, kwargs, recv_node):
    from .builtins_model import to_set

    for st1, sset in to_set(engine, st, args[0]):
        if isinstance(sset, Raised):
            yield st1, sset
            continue
        nodes, na, e, ea = recv.t
        a, b = S.fresh("a", V), S.fresh("b", V)
        new = sv_graph(z3.Lambda([a], And(nodes[a], Not(sset.t[a]))), na, z3.Lambda([a, b], And(e[a, b], Not(sset.t[a]), Not(sset.t[b]))), ea)
        yield from _mut(engine, st1, recv, recv_node, new)


def m_has_node(engine, st, recv, args, kwargs, recv_node):
    st, n = engine.boxed(st, args[0])
    yield st, sv_bool(recv.t[0][n])


def m_has_edge(engine, st, recv, args, kwargs, recv_node):
    st, u = engine.boxed(st, args[0])
    st, v = engine.boxed(st, args[1])
    yield st, sv_bool(recv.t[2][u, v])


def subgraph_val(g, keep):
    nodes, na, e, ea = g.t
    a, b = S.fresh("a", V), S.fresh("b", V)
    n2 = z3.Lambda([a], And(nodes[a], keep[a]))
    return sv_graph(n2, na, z3.Lambda([a, b], And(e[a, b], nodes[a], keep[a], nodes[b], keep[b])), ea)


def m_subgraph(engine, st, recv, args, kwargs, recv_node):
    from .builtins_model import to_set

    for st1, s in to_set(engine, st, args[0]):
        if isinstance(s, Raised):
            yield st1, s
        else:
            yield st1, subgraph_val(recv, s.t)


def nattr_dict(g, n, vty=TAny):
    """the attribute dict of node n as a dict value"""
    k = S.fresh("k", V)
    na = g.t[1]
    return sv_dict(z3.Lambda([k], Not(V.is_none(na[n, k]))), z3.Lambda([k], na[n, k]), TStr, vty)


def eattr_dict(g, u, v):
    k = S.fresh("k", V)
    ea = g.t[3]
    return sv_dict(z3.Lambda([k], Not(V.is_none(ea[u, v][k]))), ea[u, v], TStr, TAny)


# ---- views -------------------------------------------------------------------------------------------
def nodes_view(g, data=None):
    from .loops import Plan

    def plan(engine, st):
        x = S.fresh("nd", V)
        nty = TAny
        c = engine.current_contract
        if c is not None and getattr(c, "graph_node_type", None):
            # static dispatch hint for attribute access on node objects; NOT an assumption: it must follow from the path
            # condition (normally a `requires` clause about the graph's nodes) - one obligation per iteration site
            from .values import parse_type

            nty = parse_type(c.graph_node_type)
            engine.oblige(st.assume(g.t[0][x]), And(V.is_obj(x), engine.instance_of(x, c.graph_node_type)), f"{engine.verifying}:graph_node_type.{c.graph_node_type}:{len(engine.obligs)}", kind="typing", func=engine.verifying, clause="graph_node_type", props=c.props)
        if data is None:
            yield st, Plan("setlike", vars=[x], mem=g.t[0][x], decode=lambda s: (s, sv_v(x, nty)), key=x)
        else:
            yield st, Plan("setlike", vars=[x], mem=g.t[0][x], decode=lambda s: (s, sv_tuple([sv_v(x, nty), nattr_dict(g, x)])), key=x)

    def contains(engine, st, x):
        st, b = engine.boxed(st, x)
        yield st, g.t[0][b]

    def as_set(engine, st):
        if data is not None:
            raise OutsideSubset("set(g.nodes(data=True))")
        yield st, sv_set(g.t[0], TAny)

    d = {"name": "nodes", "plan": plan, "contains": contains, "as_set": as_set, "graph": g}
    if data is None:
        d["call"] = lambda engine, st, args, kwargs: _nodes_call(engine, st, g, args, kwargs)
    return SV("view", d)


def _nodes_call(engine, st, g, args, kwargs):
    data = kwargs.get("data", args[0] if args else None)
    if data is None:
        yield st, nodes_view(g)
        return
    if data.kind == "bool" and z3.is_true(z3.simplify(data.t)):
        yield st, nodes_view(g, data=True)
        return
    raise OutsideSubset("g.nodes(data=<non-True>)")


def edges_view(g, data=None, src=None, dst=None):
    """edges of g, optionally restricted to those leaving src / entering dst; data: None | True | attribute name"""
    from .loops import Plan

    def mem(u, v):
        c = g.t[2][u, v]
        if src is not None:
            c = And(c, u == src)
        if dst is not None:
            c = And(c, v == dst)
        return c

    def plan(engine, st):
        u = src if src is not None else S.fresh("eu", V)
        v = dst if dst is not None else S.fresh("ev", V)
        vars_ = [x for x, fixed in ((u, src), (v, dst)) if fixed is None]

        def decode(s):
            items = [sv_v(u, TAny), sv_v(v, TAny)]
            if data is True:
                items.append(eattr_dict(g, u, v))
            elif data is not None:
                items.append(sv_v(g.t[3][u, v][V.str_(data)], TAny))
            return s, sv_tuple(items)

        if not vars_:
            raise OutsideSubset("edges view with both endpoints fixed")
        key = V.pair(u, v) if len(vars_) == 2 else vars_[0]
        yield st, Plan("setlike", vars=vars_, mem=g.t[2][u, v], decode=decode, key=key)

    d = {"name": "edges", "plan": plan, "graph": g}

    def getitem(engine, st, k):
        # g.edges[(u, v)] : the attribute dict of an existing edge
        if k.kind == "tuple" and len(k.t) == 2:
            st, u = engine.boxed(st, k.t[0])
            st, v = engine.boxed(st, k.t[1])
        else:
            st, p = engine.boxed(st, k)
            u, v = V.fst(p), V.snd(p)
        for st1, has in engine.fork(st, g.t[2][u, v]):
            if has:
                yield st1, eattr_dict(g, u, v)
            else:
                yield st1, Raised("KeyError", where="edges[]: not an edge")

    d["getitem"] = getitem
    if data is None and src is None and dst is None:
        d["call"] = lambda engine, st, args, kwargs: _edges_call(engine, st, g, args, kwargs, None, None)

        def as_set(engine, st):
            p = S.fresh("p", V)
            yield st, sv_set(z3.Lambda([p], And(V.is_pair(p), g.t[2][V.fst(p), V.snd(p)])), TAny)

        d["as_set"] = as_set
    return SV("view", d)


def _edges_call(engine, st, g, args, kwargs, src_mode, _):
    data = kwargs.get("data")
    nb = kwargs.get("nbunch", args[0] if args else None)
    if data is None:
        dv = None
    elif data.kind == "bool":
        if z3.is_true(z3.simplify(data.t)):
            dv = True
        elif z3.is_false(z3.simplify(data.t)):
            dv = None
        else:
            raise OutsideSubset("edges(data=<symbolic bool>)")
    elif data.kind == "str":
        dv = data.t
    else:
        raise OutsideSubset("edges(data=...) form")
    if nb is None:
        yield st, edges_view(g, dv)
        return
    st, n = engine.boxed(st, nb)
    if src_mode == "out":
        yield st, edges_view(g, dv, src=n)
    elif src_mode == "in":
        yield st, edges_view(g, dv, dst=n)
    else:
        raise OutsideSubset("g.edges(nbunch)")


def degree_view(g, which):
    from .loops import Plan

    fn = {"in": in_deg, "out": out_deg, "tot": tot_deg}[which]
    e = g.t[2]

    def plan(engine, st):
        x = S.fresh("nd", V)
        yield st, Plan("setlike", vars=[x], mem=g.t[0][x], decode=lambda s: (s.with_facts(deg_def(e, x)), sv_tuple([sv_v(x, TAny), sv_int(fn(e, x))])), key=x)

    def getitem(engine, st, k):
        st, n = engine.boxed(st, k)
        st = st.with_facts(deg_def(e, n))
        for st1, has in engine.fork(st, g.t[0][n]):
            if has:
                yield st1, sv_int(fn(e, n))
            else:
                yield st1, Raised("KeyError", where="degree[]: node not in graph")

    def call(engine, st, args, kwargs):
        # G.degree(n) for one node n: the number (a node that is not in the graph raises)
        if len(args) != 1 or kwargs or args[0].kind in ("list", "set", "tuple"):
            raise OutsideSubset("degree view called with an nbunch / weight")
        yield from getitem(engine, st, args[0])

    return SV("view", {"name": which + "_degree", "plan": plan, "getitem": getitem, "call": call, "graph": g})


def graph_attr(engine, st, g, attr):
    if attr == "nodes":
        return nodes_view(g)
    if attr == "edges":
        return edges_view(g)
    if attr == "in_degree":
        return degree_view(g, "in")
    if attr == "out_degree":
        return degree_view(g, "out")
    if attr == "degree":
        return degree_view(g, "tot")
    return None


def m_out_edges(engine, st, recv, args, kwargs, recv_node):
    yield from _edges_call(engine, st, recv, args, kwargs, "out", None)


def m_in_edges(engine, st, recv, args, kwargs, recv_node):
    yield from _edges_call(engine, st, recv, args, kwargs, "in", None)


# ---- module functions ----------------------------------------------------------------------------------
def as_graph(engine, st, x):
    if x.kind == "graph":
        return st, x
    if x.kind == "v" and strip_opt(x.ty) == TGraph:
        return engine.unboxed(st, x.t, TGraph)
    raise OutsideSubset(f"expected a graph, got {x.kind}:{x.ty}")


def x_DiGraph(engine, st, args, kwargs, node):
    if args or kwargs:
        raise OutsideSubset("DiGraph(...) with arguments")
    yield st, empty_graph()


def compose_val(G, H):
    gn, gna, ge, gea = G.t
    hn, hna, he, hea = H.t
    a, b, k = S.fresh("a", V), S.fresh("b", V), S.fresh("k", V)
    nodes = z3.Lambda([a], Or(gn[a], hn[a]))
    na = z3.Lambda([a, k], z3.If(And(hn[a], Not(V.is_none(hna[a, k]))), hna[a, k], z3.If(gn[a], gna[a, k], S.NONE)))
    edges = z3.Lambda([a, b], Or(ge[a, b], he[a, b]))
    ea = z3.Lambda([a, b], z3.Lambda([k], z3.If(And(he[a, b], Not(V.is_none(hea[a, b][k]))), hea[a, b][k], z3.If(ge[a, b], gea[a, b][k], S.NONE))))
    return sv_graph(nodes, na, edges, ea)


def x_compose(engine, st, args, kwargs, node):
    st, G = as_graph(engine, st, args[0])
    st, H = as_graph(engine, st, args[1])
    yield st, compose_val(G, H)


def relabel_val(G, a, b):
    """nx.relabel_nodes(G, {a: b}) (copy=True)"""
    n, na, e, ea = G.t
    x, y, k = S.fresh("x", V), S.fresh("y", V), S.fresh("k", V)
    has_a = n[a]
    nodes = z3.Lambda([x], Or(And(n[x], x != a), And(x == b, has_a)))
    # attribute dict of the merged node: the one of whichever of {a, b} is later in G's node order (abstracted)
    pick_a = Or(Not(n[b]), relabel_pick(n, a, b))
    na2 = z3.Lambda([x, k], z3.If(And(x == b, has_a, a != b), z3.If(pick_a, na[a, k], na[b, k]), na[x, k]))

    def pre(t):  # edge relation after mapping
        return t

    edges = z3.Lambda(
        [x, y],
        Or(
            And(x != a, y != a, e[x, y]),
            And(x == b, y != a, has_a, e[a, y]),
            And(x != a, y == b, has_a, e[x, a]),
            And(x == b, y == b, has_a, e[a, a]),
        ),
    )
    # edge attributes: those of some pre-image edge (exact when there is only one)
    ea2 = z3.Lambda(
        [x, y],
        z3.If(
            And(x != a, y != a, e[x, y], Not(And(x == b, y == b, has_a, e[a, a])), Not(And(x == b, has_a, e[a, y])), Not(And(y == b, has_a, e[x, a]))),
            ea[x, y],
            z3.If(
                And(x == b, y != a, has_a, e[a, y], Not(And(x != a, e[x, y]))),
                ea[a, y],
                z3.If(And(x != a, y == b, has_a, e[x, a], Not(And(y != a, e[x, y]))), ea[x, a], z3.Function("relabel_eattr", EAttrS, V, V, V, V, S.MapS)(ea, a, b, x, y)),
            ),
        ),
    )
    return sv_graph(nodes, na2, edges, ea2)


def x_relabel_nodes(engine, st, args, kwargs, node):
    st, G = as_graph(engine, st, args[0])
    m = args[1]
    if len(args) > 2 or "copy" in kwargs:
        raise OutsideSubset("relabel_nodes(copy=...)")
    if m.kind != "dict":
        raise OutsideSubset("relabel_nodes mapping")
    # only the single-entry mapping {a: b} built by a dict display is modelled
    dom, mp = m.t
    d = z3.simplify(dom)
    key = _single_store_key(dom)
    if key is None:
        raise OutsideSubset("relabel_nodes with a mapping that is not a one-entry display")
    yield st, relabel_val(G, key, z3.simplify(mp[key]))


def _single_store_key(dom):
    if z3.is_app(dom) and dom.decl().kind() == z3.Z3_OP_STORE and dom.arg(0).eq(S.EMPTY_SET):
        return dom.arg(1)
    return None


def x_set_node_attributes(engine, st, args, kwargs, node):
    st, G = as_graph(engine, st, args[0])
    vals, name = args[1], args[2] if len(args) > 2 else kwargs.get("name")
    if vals.kind != "dict":
        raise OutsideSubset("set_node_attributes values")
    st, kname = engine.boxed(st, name)
    n, na, e, ea = G.t
    dom, mp = vals.t
    a, k = S.fresh("a", V), S.fresh("k", V)
    na2 = z3.Lambda([a, k], z3.If(And(k == kname, dom[a], n[a]), mp[a], na[a, k]))
    new = sv_graph(n, na2, e, ea)
    if node is None:
        raise OutsideSubset("set_node_attributes without a syntactic target")
    for st1, err in engine.write_back(node.args[0], args[0], new, st):
        yield (st1, err) if isinstance(err, Raised) else (st1, SV_NONE)


def x_selfloop_edges(engine, st, args, kwargs, node):
    from .loops import Plan

    st, G = as_graph(engine, st, args[0])

    def plan(engine, st):
        u = S.fresh("su", V)
        yield st, Plan("setlike", vars=[u], mem=G.t[2][u, u], decode=lambda s: (s, sv_tuple([sv_v(u, TAny), sv_v(u, TAny)])), key=u)

    yield st, SV("view", {"name": "selfloop_edges", "plan": plan})


def x_all_simple_paths(engine, st, args, kwargs, node):
    st, G = as_graph(engine, st, args[0])
    st, s = engine.boxed(st, args[1])
    st, t = engine.boxed(st, args[2])
    e = G.t[2]
    n = simple_paths_len(e, s, t)
    arr = simple_paths_arr(e, s, t)
    j, i = S.fresh("pj", S.Int), S.fresh("pi", S.Int)
    pl = lambda jj: S.unb_list_len(V.bid(arr[jj]))
    pa = lambda jj: S.unb_list_arr(V.bid(arr[jj]))
    facts = [
        n >= 0,
        z3.ForAll(
            [j],
            z3.Implies(
                And(0 <= j, j < n),
                And(
                    V.is_box(arr[j]),
                    pl(j) >= 1,
                    pa(j)[0] == s,
                    pa(j)[pl(j) - 1] == t,
                    z3.ForAll([i], z3.Implies(And(0 <= i, i < pl(j) - 1), e[pa(j)[i], pa(j)[i + 1]])),
                    (s == t) == (pl(j) == 1),
                ),
            ),
        ),
        z3.Implies(And(s == t, G.t[0][s]), n == 1),
    ]
    yield st.with_facts(facts), sv_list(n, arr, TList(TAny))


def install(engine):
    mm = engine.method_models
    mm[("graph", "add_node")] = m_add_node
    mm[("graph", "add_edge")] = m_add_edge
    mm[("graph", "remove_node")] = m_remove_node
    mm[("graph", "remove_edge")] = m_remove_edge
    mm[("graph", "has_node")] = m_has_node
    mm[("graph", "remove_edges_from")] = m_remove_edges_from
    mm[("graph", "remove_nodes_from")] = m_remove_nodes_from
    mm[("graph", "has_edge")] = m_has_edge
    mm[("graph", "subgraph")] = m_subgraph
    mm[("graph", "out_edges")] = m_out_edges
    mm[("graph", "in_edges")] = m_in_edges
    em = engine.ext_models
    for pfx in ("networkx.", "nx."):
        em[pfx + "DiGraph"] = x_DiGraph
        em[pfx + "compose"] = x_compose
        em[pfx + "relabel_nodes"] = x_relabel_nodes
        em[pfx + "set_node_attributes"] = x_set_node_attributes
        em[pfx + "selfloop_edges"] = x_selfloop_edges
        em[pfx + "all_simple_paths"] = x_all_simple_paths
    engine.graph_attr = graph_attr
