"""z3 sorts and the universal value sort V used by the symbolic executor.

Encoding (see DESIGN.md section 2, "as built"):

  V  = none | int(ival) | bool_(bval) | str_(sval) | obj(oid) | pair(fst, snd) | box(bid)

* primitives are injected by datatype constructors (distinctness / injectivity are built in);
* instances of classes are `obj(oid)`; their class is `cls_of(oid)`; their fields live in a
  per-field heap `Array(V, V)`;
* containers are *values* (functional arrays); when one has to be stored inside another container or
  in a heap field it is boxed as `box(inj_<kind>(...))`; the matching un-boxing function is axiomatised
  by ground facts emitted at every boxing site (`unbox(inj(x)) == x`), which is quantifier free.
"""
import z3

_V = z3.Datatype("V")
_V.declare("none")
_V.declare("int", ("ival", z3.IntSort()))
_V.declare("bool_", ("bval", z3.BoolSort()))
_V.declare("str_", ("sval", z3.StringSort()))
_V.declare("obj", ("oid", z3.IntSort()))
_V.declare("pair", ("fst", _V), ("snd", _V))
_V.declare("box", ("bid", z3.IntSort()))
V = _V.create()

Int = z3.IntSort()
Bool = z3.BoolSort()
Str = z3.StringSort()

SetS = z3.ArraySort(V, Bool)  # set of V
MapS = z3.ArraySort(V, V)  # total map V -> V (dict payload, heap field)
SeqS = z3.ArraySort(Int, V)  # index -> V (list payload)
RelS = z3.ArraySort(V, V, Bool)  # binary relation (graph edges)
Map2S = z3.ArraySort(V, V, V)  # (a, b) -> V  (node attr: (node, key) -> value ; edge attr per name)

NONE = V.none

# ---- class ids ------------------------------------------------------------------------------
cls_of = z3.Function("cls_of", Int, Int)  # oid -> class id

# ---- boxing of container values --------------------------------------------------------------
inj_set = z3.Function("inj_set", SetS, Int)
unb_set = z3.Function("unb_set", Int, SetS)
inj_list = z3.Function("inj_list", Int, SeqS, Int)
unb_list_len = z3.Function("unb_list_len", Int, Int)
unb_list_arr = z3.Function("unb_list_arr", Int, SeqS)
inj_dict = z3.Function("inj_dict", SetS, MapS, Int)
unb_dict_dom = z3.Function("unb_dict_dom", Int, SetS)
unb_dict_map = z3.Function("unb_dict_map", Int, MapS)
# kind tag of a box: 1 set, 2 list, 3 dict, 4 tuple (var length), 5 graph, 6 frozen other
box_kind = z3.Function("box_kind", Int, Int)
BK_SET, BK_LIST, BK_DICT, BK_TUPLE, BK_GRAPH, BK_OTHER = 1, 2, 3, 4, 5, 6
inj_tuple = z3.Function("inj_tuple", Int, SeqS, Int)

# graphs: nodes, node attrs (node,key)->V (none == absent), edges, edge attrs (u,v)->dict-as-(key->V)
inj_graph = z3.Function("inj_graph", SetS, Map2S, RelS, z3.ArraySort(V, V, MapS), Int)
unb_g_nodes = z3.Function("unb_g_nodes", Int, SetS)
unb_g_nattr = z3.Function("unb_g_nattr", Int, Map2S)
unb_g_edges = z3.Function("unb_g_edges", Int, RelS)
unb_g_eattr = z3.Function("unb_g_eattr", Int, z3.ArraySort(V, V, MapS))

EMPTY_SET = z3.K(V, z3.BoolVal(False))
NONE_MAP = z3.K(V, NONE)
NONE_SEQ = z3.K(Int, NONE)

_counter = [0]


def fresh(prefix, sort):
    _counter[0] += 1
    return z3.Const(f"{prefix}!{_counter[0]}", sort)


def fresh_name(prefix):
    _counter[0] += 1
    return f"{prefix}!{_counter[0]}"


def is_none(v):
    return V.is_none(v)


def mk_int(t):
    return V.int(t)


def mk_bool(t):
    return V.bool_(t)


def mk_str(t):
    return V.str_(t)


def set_nonempty(s):
    """z3 Bool: the set (SetS term) has a member.  Sets of pairs (comprehension results `Lambda y. is_pair(y) & R(fst y,
    snd y)`) get the two-variable form  exists a b. R(a, b): its body contains the relation applied to plain variables,
    which is what E-matching can instantiate from a ground R(u, v)."""
    if z3.is_quantifier(s) and s.is_lambda() and s.num_vars() == 1:
        y = fresh("sy", V)
        body = z3.substitute_vars(s.body(), y)
        conj = body.children() if z3.is_and(body) else [body]
        if any(c.eq(V.is_pair(y)) for c in conj):
            a, b = fresh("sa", V), fresh("sb", V)
            rest = z3.simplify(z3.substitute(z3.And(*[c for c in conj if not c.eq(V.is_pair(y))]) if len(conj) > 1 else z3.BoolVal(True), (y, V.pair(a, b))))
            return z3.Exists([a, b], rest)
    x = fresh("w", V)
    return z3.Exists([x], s[x])


def pair_set_body(s):
    """if s is a comprehension-style set of pairs  Lambda y. is_pair(y) & R(fst y, snd y)  return (a, b, R(a, b)) else None"""
    if z3.is_quantifier(s) and s.is_lambda() and s.num_vars() == 1:
        y = fresh("sy", V)
        body = z3.substitute_vars(s.body(), y)
        conj = body.children() if z3.is_and(body) else [body]
        if any(c.eq(V.is_pair(y)) for c in conj):
            a, b = fresh("sa", V), fresh("sb", V)
            rest = [c for c in conj if not c.eq(V.is_pair(y))]
            r = z3.And(*rest) if len(rest) > 1 else (rest[0] if rest else z3.BoolVal(True))
            return a, b, z3.simplify(z3.substitute(r, (y, V.pair(a, b))))
    return None
