"""Loads the real source of the package under verification (working tree, every run)."""
import ast
import hashlib
import os

REPO = os.environ.get("VERIF_REPO", "/repo")
PKG = "sqllineage"


class FuncInfo:
    def __init__(self, module, qualname, node, cls=None):
        self.module, self.qualname, self.node, self.cls = module, qualname, node, cls
        self.decorators = []
        for d in node.decorator_list:
            if isinstance(d, ast.Name):
                self.decorators.append(d.id)
            elif isinstance(d, ast.Attribute):
                self.decorators.append(f"{getattr(d.value, 'id', '?')}.{d.attr}")
            elif isinstance(d, ast.Call):
                self.decorators.append("call")

    @property
    def fq(self):
        return f"{self.module.name}.{self.qualname}"

    @property
    def is_static(self):
        return "staticmethod" in self.decorators

    @property
    def is_classmethod(self):
        return "classmethod" in self.decorators

    @property
    def is_property(self):
        return "property" in self.decorators or "lazy_property" in self.decorators

    @property
    def setter_of(self):
        for d in self.decorators:
            if d.endswith(".setter"):
                return d.split(".")[0]
        return None

    def span(self):
        return (self.node.lineno, self.node.end_lineno)

    def source(self):
        return "\n".join(self.module.lines[self.node.lineno - 1 : self.node.end_lineno])

    def sha(self):
        return hashlib.sha256(self.source().encode()).hexdigest()[:16]


class ClassInfo:
    def __init__(self, module, node):
        self.module, self.node, self.name = module, node, node.name
        self.bases = []
        for b in node.bases:
            if isinstance(b, ast.Name):
                self.bases.append(b.id)
            elif isinstance(b, ast.Attribute):
                self.bases.append(b.attr)
        self.methods = {}
        self.setters = {}
        self.attrs = {}
        self.fields = set()
        for st in node.body:
            if isinstance(st, ast.FunctionDef):
                fi = FuncInfo(module, f"{node.name}.{st.name}", st, cls=self)
                if fi.setter_of:
                    self.setters[fi.setter_of] = fi
                else:
                    self.methods[st.name] = fi
                for sub in ast.walk(st):
                    if isinstance(sub, (ast.Assign, ast.AnnAssign, ast.AugAssign)):
                        tgts = sub.targets if isinstance(sub, ast.Assign) else [sub.target]
                        for t in tgts:
                            if isinstance(t, ast.Attribute) and isinstance(t.value, ast.Name) and t.value.id == "self":
                                self.fields.add(t.attr)
            elif isinstance(st, ast.Assign):
                for t in st.targets:
                    if isinstance(t, ast.Name):
                        self.attrs[t.id] = st.value
            elif isinstance(st, ast.AnnAssign) and isinstance(st.target, ast.Name) and st.value is not None:
                self.attrs[st.target.id] = st.value


class ModuleInfo:
    def __init__(self, name, path):
        self.name, self.path = name, path
        with open(path) as f:
            self.source = f.read()
        self.lines = self.source.split("\n")
        self.sha = hashlib.sha256(self.source.encode()).hexdigest()
        self.tree = ast.parse(self.source)
        self.globals = {}
        self.classes = {}
        self.funcs = {}
        for st in self.tree.body:
            self._top(st)

    def _top(self, st):
        if isinstance(st, ast.Import):
            for a in st.names:
                self.globals[(a.asname or a.name).split(".")[0]] = ("module", a.name if a.asname else a.name.split(".")[0])
        elif isinstance(st, ast.ImportFrom):
            mod = st.module or ""
            if st.level:
                base = self.name.split(".")
                base = base[: len(base) - st.level]
                mod = ".".join(base + ([mod] if mod else []))
            for a in st.names:
                self.globals[a.asname or a.name] = ("from", mod, a.name)
        elif isinstance(st, ast.ClassDef):
            ci = ClassInfo(self, st)
            self.classes[st.name] = ci
            self.globals[st.name] = ("class", ci)
        elif isinstance(st, ast.FunctionDef):
            fi = FuncInfo(self, st.name, st)
            self.funcs[st.name] = fi
            self.globals[st.name] = ("func", fi)
        elif isinstance(st, ast.Assign):
            for t in st.targets:
                if isinstance(t, ast.Name):
                    self.globals[t.id] = ("const", st.value)
        elif isinstance(st, ast.AnnAssign) and isinstance(st.target, ast.Name) and st.value is not None:
            self.globals[st.target.id] = ("const", st.value)
        elif isinstance(st, (ast.If, ast.Try)):
            for sub in st.body:
                self._top(sub)


class Repo:
    def __init__(self, root=None):
        self.root = root or REPO
        self.modules = {}
        base = os.path.join(self.root, PKG)
        for dp, dn, fn in os.walk(base):
            dn[:] = [d for d in dn if d not in ("__pycache__", "data", "build")]
            for f in fn:
                if f.endswith(".py"):
                    p = os.path.join(dp, f)
                    rel = os.path.relpath(p, self.root)[:-3].replace(os.sep, ".")
                    if rel.endswith(".__init__"):
                        rel = rel[: -len(".__init__")]
                    try:
                        self.modules[rel] = ModuleInfo(rel, p)
                    except SyntaxError as e:  # a tree that does not parse cannot be verified
                        raise SystemExit(f"cannot parse {p}: {e}")
        # ghost modules: lemma clients written against the contracts (never part of the repository)
        gdir = os.path.join(os.path.dirname(os.path.dirname(os.path.abspath(__file__))), "contracts", "ghost")
        self.ghost = set()
        if os.path.isdir(gdir):
            for f in sorted(os.listdir(gdir)):
                if f.endswith(".py"):
                    name = "verif_ghost." + f[:-3]
                    self.modules[name] = ModuleInfo(name, os.path.join(gdir, f))
                    self.ghost.add(name)
        self.classes = {}
        for m in self.modules.values():
            for c in m.classes.values():
                # later definitions with the same bare name are kept under module-qualified keys as well
                self.classes.setdefault(c.name, c)
                self.classes[f"{m.name}.{c.name}"] = c

    # ---- lookup ---------------------------------------------------------------------------------
    def func(self, fq):
        """'sqllineage.config._SQLLineageConfigLoader.__call__' or 'sqllineage.utils.helpers.split'"""
        parts = fq.split(".")
        for i in range(len(parts) - 1, 0, -1):
            mod = ".".join(parts[:i])
            if mod in self.modules:
                m = self.modules[mod]
                rest = parts[i:]
                if len(rest) == 1:
                    return m.funcs.get(rest[0])
                if len(rest) == 2 and rest[0] in m.classes:
                    c = m.classes[rest[0]]
                    if rest[1].endswith("@setter"):
                        return c.setters.get(rest[1][: -len("@setter")])
                    return c.methods.get(rest[1])
                if len(rest) == 3 and rest[0] in m.classes:
                    # nested function inside a method: Class.method.inner
                    c = m.classes[rest[0]]
                    outer = c.methods.get(rest[1])
                    if outer:
                        for sub in ast.walk(outer.node):
                            if isinstance(sub, ast.FunctionDef) and sub.name == rest[2]:
                                return FuncInfo(m, ".".join(rest), sub, cls=None)
        return None

    def resolve_global(self, module, name, depth=0):
        """Follow `from x import y` chains to a definition: returns ('class', ClassInfo) | ('func', FuncInfo) |
        ('const', expr, ModuleInfo) | ('module', dotted) | ('ext', dotted) | None"""
        if depth > 8:
            return None
        g = module.globals.get(name)
        if g is None:
            return None
        if g[0] == "from":
            mod, nm = g[1], g[2]
            if mod in self.modules:
                r = self.resolve_global(self.modules[mod], nm, depth + 1)
                if r is not None:
                    return r
                sub = f"{mod}.{nm}"
                if sub in self.modules:
                    return ("module", sub)
                return None
            return ("ext", f"{mod}.{nm}")
        if g[0] == "const":
            return ("const", g[1], module)
        return g

    def mro(self, cls):
        """Linearisation good enough for this package (C3 for single chains and the mixin diamonds used)."""
        seen, out = set(), []

        def lin(c):
            res = [c]
            for b in c.bases:
                r = self.resolve_global(c.module, b)
                if r and r[0] == "class":
                    res.append(lin(r[1]))
            return res

        def flatten(tree):
            head, rest = tree[0], tree[1:]
            seqs = [flatten(r) for r in rest] + [[r[0] for r in rest]]
            out = [head]
            seqs = [s for s in seqs if s]
            while seqs:
                for s in seqs:
                    cand = s[0]
                    if not any(cand in o[1:] for o in seqs):
                        break
                else:
                    cand = seqs[0][0]
                out.append(cand)
                seqs = [[x for x in s if x is not cand] for s in seqs]
                seqs = [s for s in seqs if s]
            return out

        return flatten(lin(cls))

    def find_method(self, cls, name, after=None):
        m = self.mro(cls)
        if after is not None:
            m = m[m.index(after) + 1 :]
        for c in m:
            if name in c.methods:
                return c.methods[name]
        return None

    def find_setter(self, cls, name):
        for c in self.mro(cls):
            if name in c.setters:
                return c.setters[name]
        return None

    def find_class_attr(self, cls, name):
        for c in self.mro(cls):
            if name in c.attrs:
                return c.attrs[name], c
        return None

    def is_subclass(self, cls, base_name):
        return any(c.name == base_name for c in self.mro(cls))

    def subclasses(self, base_name):
        out = []
        seen = set()
        for c in self.classes.values():
            if id(c) in seen:
                continue
            seen.add(id(c))
            if self.is_subclass(c, base_name):
                out.append(c)
        return out

    def all_fields(self, cls):
        f = set()
        for c in self.mro(cls):
            f |= c.fields
        return f
