"""./check <property> [--tier quick|thorough] [--replay file]"""
import argparse
import hashlib
import importlib
import json
import os
import sys
import time

from . import run as R

ROOT = R.ROOT


def sh(s):
    return hashlib.sha256(s.encode()).hexdigest()[:12]


def load_known():
    p = os.path.join(ROOT, "known_findings.json")
    if not os.path.exists(p):
        return []
    return json.load(open(p)).get("findings", [])


def main(argv=None):
    ap = argparse.ArgumentParser()
    ap.add_argument("prop")
    ap.add_argument("--tier", default=os.environ.get("VERIF_TIER", "quick"))
    ap.add_argument("--replay")
    ap.add_argument("--verbose", action="store_true")
    ap.add_argument("--only")
    a = ap.parse_args(argv)
    sys.path.insert(0, ROOT)
    pm = importlib.import_module("props." + a.prop)
    if a.replay:
        return replay_file(pm, a.replay)
    seed = int(os.environ.get("VERIF_SEED", "0") or 0)
    t0 = time.time()
    tier = a.tier if a.tier in ("quick", "thorough") else "quick"
    opts = {"timeout_ms": 8000 if tier == "quick" else 60000, "unroll": 2 if tier == "quick" else 3, "fork": 6, "refute_budget_s": 40 if tier == "quick" else 300}
    if tier == "thorough":
        from . import solve

        solve.RETRY = True
    funcs = list(pm.FUNCTIONS)
    if a.only:
        funcs = [f for f in funcs if a.only in (f[0] if isinstance(f, tuple) else f)]
    tasks = [((fq[1], fq[0], opts) if isinstance(fq, tuple) else (pm.CONTRACT_MODULES, fq, opts)) for fq in funcs]
    results = R.run_tasks(tasks)
    pid = pm.PROPERTY
    known = [k for k in load_known() if k.get("property") == pid and k.get("status", "open") == "open"]
    lines = []
    violations = []
    undecided = []
    faults = []
    known_hits = []
    n_obl = n_dis = 0
    solver_time = 0.0
    max_time = 0.0
    funcs_info = []
    samples = []
    by_kind = {}
    canaries = {"ok": 0, "vacuous": 0, "undecided": 0}
    models_used, dropped = set(), set()
    for res in results:
        fq = res["func"]
        if res["error"]:
            if res["error"].startswith("outside-subset"):
                undecided.append((fq, res["error"]))
            else:
                faults.append((fq, res["error"] + "\n" + res.get("traceback", "")))
            continue
        models_used |= set(res["models_used"])
        dropped |= set(res["dropped"])
        s = res["summary"]
        funcs_info.append({"function": fq, "file": os.path.relpath(s["file"], os.environ.get("VERIF_REPO", "/repo")) if s["file"].startswith(os.environ.get("VERIF_REPO", "/repo")) else os.path.relpath(s["file"], ROOT), "lines": list(s["span"]), "source_sha": s["sha"], "paths": s["paths"], "obligations": s["obligations"], "wall_s": res["wall"]})
        cv = R.clause_verdicts(res)
        for clause, d in sorted(cv.items()):
            if pid not in d["props"]:
                continue
            solver_time += d["time"]
            if d["kind"] == "canary":
                canaries[{"canary-ok": "ok", "canary-vacuous": "vacuous", "canary-undecided": "undecided"}[d["verdict"]]] += 1
                if d["verdict"] == "canary-vacuous":
                    faults.append((fq, f"canary {clause} was proved: the encoding of {fq} is vacuous"))
                continue
            n_obl += d["n"]
            by_kind[d["kind"]] = by_kind.get(d["kind"], 0) + d["n"]
            if d["verdict"] == "proved":
                n_dis += d["n"]
                if len(samples) < 6:
                    samples.append({"obligation": f"{pid}:{fq}:{clause}", "paths": d["n"], "status": "proved", "solver_s": round(d["time"], 4)})
            elif d["verdict"] == "refuted":
                n_dis += d["proved"]
                hit = match_known(known, fq, clause)
                if hit is not None:
                    ok, detail = confirm_known(pm, hit)
                    if ok:
                        known_hits.append((hit, fq, clause))
                        continue
                violations.append((fq, clause, d))
            else:
                n_dis += d["proved"]
                undecided.append((fq, f"{clause}: solver answered unknown in proof mode and found no counter-model by unrolling"))
        for r in res["prove"]:
            max_time = max(max_time, r["time"])
    # lemmas over the contracts' spec functions only (no code): pure SMT validity
    for lname, fn in getattr(pm, "LEMMAS", []) if not a.only else []:
        import z3 as _z3

        t1 = time.time()
        try:
            formula = fn()
            so = _z3.Solver()
            so.set("timeout", opts["timeout_ms"])
            so.add(_z3.Not(formula))
            r = so.check()
        except Exception as e:
            faults.append((lname, f"lemma crashed: {e}"))
            continue
        n_obl += 1
        by_kind["lemma"] = by_kind.get("lemma", 0) + 1
        solver_time += time.time() - t1
        if r == _z3.unsat:
            n_dis += 1
            if len(samples) < 8:
                samples.append({"obligation": f"{pid}:lemma.{lname}", "status": "proved", "solver_s": round(time.time() - t1, 4)})
        elif r == _z3.sat:
            violations.append((f"lemma.{lname}", "lemma", {"witness": {"model": str(so.model())[:3000], "name": lname}, "n": 1, "proved": 0}))
        else:
            undecided.append((f"lemma.{lname}", "solver answered unknown"))
    # site obligations (K2/K3): discharged by syntactic scans of the whole package
    site_records = []
    if getattr(pm, "SITE_CHECKS", None) and not a.only:
        from .repo import Repo

        repo = Repo()
        for name, fn in pm.SITE_CHECKS:
            try:
                recs = fn(repo)
            except Exception as e:
                import traceback

                faults.append((name, "site scan crashed: " + traceback.format_exc()[-1500:]))
                continue
            for r in recs:
                site_records.append(r)
                n_obl += 1
                by_kind[r["kind"]] = by_kind.get(r["kind"], 0) + 1
                if r["status"] == "proved":
                    n_dis += 1
                elif r["status"] == "assumed":
                    n_dis += 1
                else:
                    hit = match_known_site(known, r["name"], r.get("detail"))
                    if hit is not None:
                        ok, detail = confirm_known(pm, hit)
                        if ok:
                            known_hits.append((hit, r["name"], r["clause"]))
                            n_dis += 0
                            continue
                    violations.append((r["name"], r["clause"], {"witness": {"model": r.get("detail"), "name": r["name"]}, "site": True, "n": 1, "proved": 0}))
        if len(samples) < 8:
            samples.extend({"obligation": r["name"], "status": r["status"], "by": r["backend"]} for r in site_records[:2])
    # bounded stand-ins and conformance checks of the property (never counted as proved)
    bounded = []
    for b in getattr(pm, "BOUNDED", []):
        if tier == "quick" and b.get("tier") == "thorough":
            continue
        rc, out, err = R.native(os.path.join(ROOT, b["script"]), [str(x) for x in b.get("args_" + tier, b.get("args", []))], env={"VERIF_SEED": str(seed)})
        rec = {"name": b["name"], "bound": b.get("bound"), "exit": rc}
        try:
            rec.update(json.loads(out.strip().splitlines()[-1]))
        except Exception:
            rec["output"] = (out + err)[-2000:]
        bounded.append(rec)
        if rc == 1:
            for w in rec.get("violations", [])[:5]:
                violations.append((b["name"], w.get("clause", "bounded"), {"witness": {"model": json.dumps(w)}, "bounded": True, "native": w}))
        elif rc != 0:
            faults.append((b["name"], f"bounded check crashed (exit {rc}): {(out + err)[-1500:]}"))
    # findings that are identified by a native witness only (no deductive clause is claimed for them)
    for k in known:
        if k.get("standalone") and not a.only:
            ok, detail = confirm_known(pm, k)
            if ok:
                known_hits.append((k, k.get("function", "-"), k.get("clause", "-")))
    exit_code = R.EXIT_HELD
    os.makedirs(os.path.join(ROOT, "replays"), exist_ok=True)
    n_viol = 0
    for hit, fq, clause in known_hits:
        print(f"KNOWN-FINDING: property={pid} {hit['what']}")
    seen_v = set()
    for fq, clause, d in violations:
        if (fq, clause) in seen_v:
            continue
        seen_v.add((fq, clause))
        n_viol += 1
        path, reproduced = write_replay(pm, pid, fq, clause, d)
        tail = "" if reproduced else " no-failing-input-found"
        print(f"VIOLATION property={pid} replay={path}{tail}")
        print(f"  failed obligation: {pid}:{fq}:{clause}")
        exit_code = R.EXIT_VIOLATION
    for fq, why in undecided:
        print(f"UNDECIDED obligation={pid}:{fq} {why}")
        if exit_code == R.EXIT_HELD:
            exit_code = R.EXIT_UNDECIDED
    for fq, why in faults:
        print(f"CHECKER-FAULT {pid}:{fq} {why}")
        exit_code = R.EXIT_FAULT if exit_code != R.EXIT_VIOLATION else exit_code
    if n_obl == 0 and not getattr(pm, "BOUNDED_ONLY", False):
        print(f"CHECKER-FAULT {pid}: zero obligations generated")
        exit_code = R.EXIT_FAULT
    wall = time.time() - t0
    level = getattr(pm, "LEVEL", "proof")
    # obligations that are REFUTED and matched to a listed known finding (same function/site and clause, witness still
    # failing) are not part of what this run claims as proved: they are reported separately, never as discharged
    n_known_refuted = sum(1 for h in known_hits if not h[0].get("standalone"))
    n_claimed = n_obl - n_known_refuted
    all_discharged = n_claimed > 0 and n_dis == n_claimed and not undecided and not faults
    coverage = {
        "obligations": n_claimed,
        "discharged": n_dis,
        "obligations_generated": n_obl,
        "refuted_obligations_listed_as_known_findings": n_known_refuted,
        "checker_cmd": f"./check {pid} --tier {tier}",
        "trusted_base": list(getattr(pm, "TRUSTED", [])) + sorted("model:" + m for m in models_used),
        "functions_under_contract": funcs_info,
        "obligations_by_kind": by_kind,
        "back_end": "z3 %s (Python API), per-obligation timeout %d ms" % (_z3v(), opts["timeout_ms"]),
        "solver_time_s": round(solver_time, 3),
        "slowest_obligation_s": round(max_time, 3),
        "canaries_refuted": canaries["ok"],
        "canaries_undecided": canaries["undecided"],
        "known_findings_reconfirmed": [h[0]["id"] for h in known_hits],
        "translation_drops": sorted(dropped) + ["type annotations", "docstrings", "exception message texts"],
        "samples": samples,
        "bounded": bounded,
        "explanation": getattr(pm, "EXPLANATION", ""),
    }
    if not all_discharged or known_hits:
        # a proof-level file never reports discharged < obligations as proof
        if not all_discharged:
            level_out = "other"
            coverage["explanation"] = (coverage["explanation"] + " | this run did not discharge every obligation: see violations/undecided").strip(" |")
        else:
            level_out = level
    else:
        level_out = level
    ev = {
        "property_id": pid,
        "tier": tier,
        "seed": seed,
        "level": level_out,
        "coverage": coverage,
        "assumptions": list(getattr(pm, "ASSUMPTIONS", [])),
        "wall_s": round(wall, 2),
        "violations": n_viol,
    }
    evdir = os.environ.get("VERIF_EVIDENCE_DIR") or os.path.join(ROOT, "evidence")
    os.makedirs(evdir, exist_ok=True)
    with open(os.path.join(evdir, pid + ".json"), "w") as f:
        json.dump(ev, f, indent=1)
    print(f"{pid}: obligations={n_obl} discharged={n_dis} violations={n_viol} known={len(known_hits)} undecided={len(undecided)} faults={len(faults)} wall={wall:.1f}s exit={exit_code}")
    return exit_code


def _z3v():
    try:
        import z3

        return z3.get_version_string()
    except Exception:
        return "?"


def match_known(known, fq, clause):
    for k in known:
        if k.get("function") == fq and clause.startswith(k.get("clause", "\0")):
            return k
    return None


def match_known_site(known, name, detail=None):
    """a listed site finding is identified by the site AND, where the entry records it, by the provenance the scan derived for
    the offending argument: the same call text fed from a different computation is a different violation"""
    for k in known:
        if k.get("site") and name == k["site"] and (not k.get("detail") or detail is None or k["detail"] == detail):
            return k
    return None


def confirm_known(pm, hit):
    """the listed witness must still fail on the real code, otherwise the finding line is not printed"""
    c = hit.get("confirm")
    if not c:
        return True, "no native confirmation registered"
    rc, out, err = R.native(os.path.join(ROOT, c["script"]), [str(x) for x in c.get("args", [])])
    return rc == 1, (out + err)[-500:]


def write_replay(pm, pid, fq, clause, d):
    """try to obtain a concrete failing input (native small-scope search registered for the function), write the
    replay file; returns (path, reproduced)"""
    rp = getattr(pm, "REPLAYERS", {})
    native = None
    reproduced = False
    if d.get("bounded"):
        native = d.get("native")
        reproduced = True
    else:
        for (f, cl), spec in rp.items():
            if fq.endswith(f) and clause.startswith(cl):
                rc, out, err = R.native(os.path.join(ROOT, spec["script"]), [str(x) for x in spec.get("args", [])] + ["--clause", clause])
                try:
                    native = json.loads(out.strip().splitlines()[-1])
                except Exception:
                    native = {"output": (out + err)[-1500:]}
                reproduced = rc == 1
                native["replay_script"] = spec["script"]
                native["replay_args"] = spec.get("args", [])
                break
    w = d.get("witness") or {}
    rec = {
        "property": pid,
        "obligation": f"{pid}:{fq}:{clause}",
        "function": fq,
        "clause": clause,
        "verifier": "bounded native stand-in on the real code (no solver involved)" if d.get("bounded") else ("z3 counter-model of the negated verification condition (refute mode: loops unrolled)" if w.get("model") else "site scan / no model"),
        "verifier_output": w.get("model"),
        "failed_obligation_name": w.get("name"),
        "native_witness": native,
        "reproduced_on_real_code": reproduced,
    }
    path = os.path.join(ROOT, "replays", f"{pid}-{sh(fq + clause)}.json")
    with open(path, "w") as f:
        json.dump(rec, f, indent=1)
    return path, reproduced


def replay_file(pm, path):
    rec = json.load(open(path))
    nat = rec.get("native_witness") or {}
    script = nat.get("replay_script")
    if not script:
        print(f"replay: {rec['obligation']} has no concrete input (no-failing-input-found); verifier output follows")
        print(rec.get("verifier_output"))
        return 1
    rc, out, err = R.native(os.path.join(ROOT, script), [str(x) for x in nat.get("replay_args", [])] + ["--clause", rec["clause"]])
    print(out[-3000:])
    if rc == 1:
        print(f"VIOLATION property={rec['property']} replay={path}")
    return rc


if __name__ == "__main__":
    sys.exit(main())
