"""Assumed contracts of the standard-library / third-party functions the package calls (DESIGN §3.2 B-D)."""
import z3

from . import sorts as S
from .sorts import V
from .state import And, Not, Or, OutsideSubset, Raised
from .values import (
    SV,
    SV_NONE,
    Facts,
    TAny,
    TDict,
    TInt,
    TList,
    TObj,
    TOpt,
    TStr,
    box,
    strip_opt,
    sv_bool,
    sv_dict,
    sv_int,
    sv_list,
    sv_set,
    sv_str,
    sv_tuple,
    sv_v,
)

# the process environment: an arbitrary but fixed external map during one activation
env_has = z3.Function("env_has", S.Str, S.Bool)
env_val = z3.Function("env_val", S.Str, S.Str)
THREAD_ID = z3.Int("TID")  # threading.get_ident() of the executing thread: constant during one activation
file_exists = z3.Function("file_exists", S.Str, S.Bool)
file_content = z3.Function("file_content", S.Str, S.Str)
path_join = z3.Function("os_path_join", S.Str, S.Str, S.Str)
path_dirname = z3.Function("os_path_dirname", S.Str, S.Str)


def x_environ_get(engine, st, args, kwargs, node):
    key = engine.as_str(args[0])
    dflt = args[1] if len(args) > 1 else SV_NONE
    for st1, has in engine.fork(st, env_has(key)):
        if has:
            yield st1, sv_str(env_val(key))
        else:
            yield st1, dflt


def x_get_ident(engine, st, args, kwargs, node):
    yield st, sv_int(THREAD_ID)


def x_main_thread(engine, st, args, kwargs, node):
    # the interpreter's main thread: one fixed Thread object whose ident is some fixed integer (equal to the executing
    # thread's or not)
    yield st, engine.global_object("threading.main_thread", "Thread")


def x_path_join(engine, st, args, kwargs, node):
    acc = engine.as_str(args[0])
    for a in args[1:]:
        acc = path_join(acc, engine.as_str(a))
    yield st, sv_str(acc)


def x_path_dirname(engine, st, args, kwargs, node):
    yield st, sv_str(path_dirname(engine.as_str(args[0])))


def x_product(engine, st, args, kwargs, node):
    from .builtins_model import to_set
    from .loops import Plan

    if len(args) != 2:
        raise OutsideSubset("itertools.product arity")
    sets = []
    for a in args:
        got = False
        for st1, s in to_set(engine, st, a):
            if isinstance(s, Raised):
                yield st1, s
                return
            st = st1
            sets.append(s)
            got = True
            break
        if not got:
            return
    A, B = sets

    def plan(engine, st):
        a, b = S.fresh("pa", V), S.fresh("pb", V)

        def decode(s):
            s, ua = engine.unboxed(s, a, A.ty.elem)
            s, ub = engine.unboxed(s, b, B.ty.elem)
            return s, sv_tuple([ua, ub])

        yield st, Plan("setlike", vars=[a, b], mem=And(A.t[a], B.t[b]), decode=decode, key=V.pair(a, b))

    yield st, SV("view", {"name": "product", "plan": plan})


def open_model(engine, st, args, kwargs, node):
    """open(path[, mode]): raises one of the OSError subclasses the callers handle, or returns a file whose
    read() is the content of the file that path denotes."""
    from . import path_model as PM

    p = args[0]
    st, ps = PM.as_path_str(engine, st, p)
    st = PM.record_open(st, "open", ps)
    outcome = S.fresh("open_outcome", S.Int)
    for cls, code in (("FileNotFoundError", 1), ("IsADirectoryError", 2), ("PermissionError", 3)):
        st1 = st.assume(outcome == code)
        yield st1, Raised(cls, where="open()")
    st2 = st.assume(outcome == 0, file_exists(ps))
    mode = args[1] if len(args) > 1 else kwargs.get("mode")
    content = sv_str(file_content(ps))
    if mode is not None and mode.kind == "str":
        m = z3.simplify(mode.t)
        if z3.is_string_value(m) and "b" in m.as_string():
            content = sv_v(z3.Function("file_bytes", S.Str, V)(ps), TAny)
    yield st2, SV("file", {"path": ps, "content": content})


def opaque_new(clsname):
    def new(engine, st, args, kwargs, node):
        st1, o = engine.new_object(st, clsname)
        # a third-party constructor may raise anything
        if not (engine.spec_ctx or engine.spec_depth):
            yield st, Raised("<unknown>", where=f"{clsname}(...)")
        yield st1, o

    return new


def opaque_call(ret_type="Any", may_raise=True):
    def call(engine, st, *a):
        if may_raise:
            if not (engine.spec_ctx or engine.spec_depth):
                yield st, Raised("<unknown>", where="third-party call")
        f, sv = engine.fresh_of_type(ret_type, "ext")
        yield st.with_facts(f), sv

    return call


def install(engine):
    oc = engine.opaque_classes
    oc["FluffConfig"] = {
        "class_attrs": {"from_path": lambda e: SV("func", ("py", lambda eng, st, args, kwargs, node: opaque_new("FluffConfig")(eng, st, args, kwargs, node)))},
        "methods": {"get": lambda eng, st, recv, args, kwargs, node: opaque_call("str", False)(eng, st)},
        "fields": {},
    }
    oc["BaseSegment"] = {
        "fields": {"raw": "str", "raw_upper": "str", "type": "str", "segments": "list[BaseSegment]", "is_whitespace": "bool", "is_comment": "bool", "is_meta": "bool"},
        # is_type(*names): some Boolean the contracts know nothing about (a finer classification than the is_* flags)
        "methods": {"is_type": lambda eng, st, recv, args, kwargs, node: opaque_call("bool", False)(eng, st)},
    }
    em = engine.ext_models
    em["os.environ.get"] = x_environ_get
    em["threading.get_ident"] = x_get_ident
    em["threading.main_thread"] = x_main_thread
    oc["Thread"] = {"fields": {"ident": "int", "name": "str"}, "methods": {}}
    em["os.path.join"] = x_path_join
    em["os.path.dirname"] = x_path_dirname
    em["itertools.product"] = x_product
