"""Check driver: one property = a set of functions under contract (+ lemma clients) -> obligations -> verdict."""
import hashlib
import importlib
import json
import multiprocessing as mp
import os
import subprocess
import sys
import time
import traceback

ROOT = os.path.dirname(os.path.dirname(os.path.abspath(__file__)))
EXIT_HELD, EXIT_VIOLATION, EXIT_UNDECIDED, EXIT_FAULT = 0, 1, 2, 3


def load_contract_modules(names):
    contracts = {}
    field_types = {}
    mods = []
    for nm in names:
        m = importlib.import_module("contracts." + nm)
        mods.append(m)
        for c in m.CONTRACTS:
            contracts[c.func] = c
        field_types.update(getattr(m, "FIELDS", {}))
    return contracts, field_types, mods


def _mk_engine(repo, contracts, field_types, mods, mode, unroll):
    from .engine import Engine

    eng = Engine(repo, contracts, mode=mode, unroll=unroll)
    from . import loops as _loops

    _loops.ENGINE_REF[0] = eng
    eng.field_types.update(field_types)
    for m in mods:
        if hasattr(m, "install"):
            m.install(eng)
    return eng


def _ob_record(ob):
    return {
        "name": ob.name,
        "status": ob.status,
        "time": round(ob.time, 4),
        "backend": ob.backend,
        "kind": ob.meta.get("kind"),
        "clause": ob.meta.get("clause"),
        "func": ob.meta.get("func"),
        "props": list(ob.meta.get("props") or ()),
        "model": getattr(ob, "model", None) if ob.status == "refuted" else None,
        "reason": getattr(ob, "reason", None),
        "where": ob.meta.get("where"),
    }


def run_contract_task(task):
    """worker: verify one function under contract in prove mode, then (if needed) in refute mode"""
    from .repo import Repo
    from .solve import discharge, discharge_canaries, parallel_discharge
    from .spec import verify_function
    from .state import OutsideSubset

    modnames, fq, opts = task
    t0 = time.time()
    out = {"func": fq, "prove": [], "refute": [], "error": None, "summary": None, "models_used": [], "dropped": [], "refute_summary": None}
    try:
        repo = Repo()
        contracts, ftypes, mods = load_contract_modules(modnames)
        c = contracts[fq]
        prove_error = None
        try:
            eng = _mk_engine(repo, contracts, ftypes, mods, "prove", 0)
            # a function whose symbolic execution does not finish is UNDECIDED (then tried in refute mode), never a hang: the
            # slowest function of the unchanged tree takes < 90 s
            eng.deadline = time.time() + opts.get("prove_budget_s", 420)
            summ = verify_function(eng, c)
            eng.deadline = None
            out["summary"] = summ
            parallel_discharge([ob for ob in eng.obligs if ob.meta.get("kind") != "canary"], opts.get("timeout_ms", 20000), opts.get("fork", 4))
            discharge_canaries([ob for ob in eng.obligs if ob.meta.get("kind") == "canary"])
            for ob in eng.obligs:
                if ob.status != "skipped":
                    out["prove"].append(_ob_record(ob))
            out["models_used"] = sorted(eng.used_models)
            out["dropped"] = sorted(eng.dropped)
        except OutsideSubset as e:
            prove_error = str(e)
        def _open(r):
            if r["kind"] == "canary":
                return False  # canaries are judged per clause below
            return r["status"] != "proved"

        canary_clauses = {}
        for r in out["prove"]:
            if r["kind"] == "canary":
                canary_clauses.setdefault(r["clause"], []).append(r["status"])
        canary_open = any("refuted" not in sts for sts in canary_clauses.values())
        need_refute = prove_error is not None or any(_open(r) for r in out["prove"]) or canary_open
        if need_refute and opts.get("refute", True):
            # refute mode needs no loop invariants: loops are unrolled 0..K times, so it still decides (boundedly) when
            # the proof attempt left the accepted subset (e.g. an invariant that names a local which was renamed)
            unroll = c.refute_unroll if c.refute_unroll is not None else opts.get("unroll", 2)
            eng2 = _mk_engine(repo, contracts, ftypes, mods, "refute", unroll)
            eng2.deadline = time.time() + opts.get("refute_budget_s", 45)
            try:
                try:
                    summ2 = verify_function(eng2, c)
                except OutsideSubset as e:
                    # keep the obligations of the paths explored so far (bounded search, any refutation found is real)
                    out["refute_error"] = str(e)
                    fi_ = repo.func(fq.split("#")[0])
                    summ2 = {"func": fq, "paths": 0, "outcomes": [], "obligations": len(eng2.obligs), "spec_warnings": [], "sha": fi_.sha() if fi_ else "", "span": fi_.span() if fi_ else (0, 0), "file": fi_.module.path if fi_ else ""}
                out["refute_summary"] = summ2
                if out["summary"] is None:
                    out["summary"] = dict(summ2, obligations=0)
                wanted = {r["clause"] for r in out["prove"] if _open(r)} | {cl for cl, sts in canary_clauses.items() if "refuted" not in sts}
                todo = [ob for ob in eng2.obligs if prove_error is not None or ob.meta.get("clause") in wanted]
                todo = [ob for ob in todo if ob.meta.get("kind") not in ("stable",) or prove_error is None]
                parallel_discharge(todo, opts.get("timeout_ms", 20000), opts.get("fork", 4))
                for ob in todo:
                    out["refute"].append(_ob_record(ob))
                out["models_used"] = sorted(set(out["models_used"]) | eng2.used_models)
            except OutsideSubset as e:
                out["refute_error"] = str(e)
        if prove_error is not None:
            refuted = [r for r in out["refute"] if r["status"] == "refuted" and r["kind"] != "canary"]
            if not refuted:
                out["error"] = f"outside-subset: {prove_error}"
            else:
                out["prove_error"] = prove_error
    except OutsideSubset as e:
        out["error"] = f"outside-subset: {e}"
    except Exception as e:  # checker fault
        out["error"] = "fault: " + "".join(traceback.format_exception_only(type(e), e)).strip()
        out["traceback"] = traceback.format_exc()
    out["wall"] = round(time.time() - t0, 3)
    return out


def clause_verdicts(res):
    """per (func, clause): proved | refuted | unknown | canary-ok | canary-vacuous"""
    by = {}
    for r in res["prove"]:
        by.setdefault(r["clause"], {"prove": [], "refute": []})["prove"].append(r)
    for r in res["refute"]:
        by.setdefault(r["clause"], {"prove": [], "refute": []})["refute"].append(r)
    out = {}
    for clause, d in by.items():
        pv = d["prove"]
        kind = pv[0]["kind"] if pv else d["refute"][0]["kind"]
        props = pv[0]["props"] if pv else d["refute"][0]["props"]
        refuted = [r for r in pv + d["refute"] if r["status"] == "refuted"]
        if kind == "canary":
            if refuted:
                v = "canary-ok"
            elif pv and all(r["status"] == "proved" for r in pv):
                v = "canary-vacuous"
            else:
                v = "canary-undecided"
        elif pv and all(r["status"] == "proved" for r in pv):
            v = "proved"
        elif refuted:
            v = "refuted"
        else:
            v = "unknown"
        out[clause] = {"verdict": v, "kind": kind, "props": props, "n": len(pv), "proved": sum(1 for r in pv if r["status"] == "proved"), "witness": (refuted[0] if refuted else None), "time": sum(r["time"] for r in pv + d["refute"])}
    return out


def run_tasks(tasks, procs=None):
    procs = procs or min(16, max(1, len(tasks)))
    if procs == 1 or os.environ.get("VERIF_SERIAL"):
        return [run_contract_task(t) for t in tasks]
    ctx = mp.get_context("fork")
    with ctx.Pool(procs) as pool:
        return pool.map(run_contract_task, tasks, chunksize=1)


def native(script, args=(), timeout=600, env=None):
    """run a replay / bounded script under the repository's own interpreter against /repo"""
    e = dict(os.environ)
    e["PYTHONPATH"] = os.environ.get("VERIF_REPO", "/repo") + os.pathsep + ROOT
    e.setdefault("PYTHONHASHSEED", "0")
    if env:
        e.update(env)
    py = os.environ.get("VERIF_NATIVE_PY", "/venv/bin/python")
    if os.environ.get("VERIF_TIER") == "thorough" or "--thorough" in args:
        timeout = max(timeout, 5400)
    try:
        p = subprocess.run([py, script, *args], capture_output=True, text=True, timeout=timeout, env=e, cwd=ROOT)
    except subprocess.TimeoutExpired:
        # neither held nor violated: reported by the callers as a crashed bounded check (checker fault)
        return 124, "", f"timed out after {timeout} s"
    return p.returncode, p.stdout, p.stderr
