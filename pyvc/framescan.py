"""K2: package-wide frame inference by syntactic scan of every store / mutation site (DESIGN §2.3, C12).

Each rule instance is a *site obligation* with a stable name (module, function, expression text); it is discharged
syntactically (no SMT).  A site that cannot be classified counts as 'may write anything' and fails.
"""
import ast

MUTATORS = {"append", "add", "update", "pop", "clear", "setdefault", "extend", "insert", "remove", "discard", "popitem", "sort", "reverse", "__setitem__", "__delitem__"}
CACHE_DECOS = {"lru_cache", "cache", "functools.lru_cache", "functools.cache", "cached", "memoize"}
IGNORED_ROOTS = {"logger", "logging", "warnings"}


def _root(node):
    n = node
    while isinstance(n, (ast.Attribute, ast.Subscript, ast.Call)):
        n = n.value if not isinstance(n, ast.Call) else n.func
    return n


def _is_mutable_literal(v):
    return isinstance(v, (ast.Dict, ast.List, ast.Set, ast.DictComp, ast.ListComp, ast.SetComp)) or (
        isinstance(v, ast.Call) and isinstance(v.func, ast.Name) and v.func.id in ("dict", "list", "set", "defaultdict", "OrderedDict")
    )


def _local_names(fn):
    names = {a.arg for a in fn.args.posonlyargs + fn.args.args + fn.args.kwonlyargs}
    if fn.args.vararg:
        names.add(fn.args.vararg.arg)
    if fn.args.kwarg:
        names.add(fn.args.kwarg.arg)
    for sub in ast.walk(fn):
        if isinstance(sub, ast.Name) and isinstance(sub.ctx, ast.Store):
            names.add(sub.id)
        elif isinstance(sub, (ast.Import, ast.ImportFrom)):
            for a in sub.names:
                names.add((a.asname or a.name).split(".")[0])
        elif isinstance(sub, (ast.FunctionDef, ast.ClassDef)) and sub is not fn:
            names.add(sub.name)
        elif isinstance(sub, ast.ExceptHandler) and sub.name:
            names.add(sub.name)
    return names


def _functions(module):
    """yield (qualname, FunctionDef, ClassInfo|None) for every function and method of a module (nested included)"""
    for fi in module.funcs.values():
        yield fi.qualname, fi.node, None
    for ci in module.classes.values():
        for fi in list(ci.methods.values()) + list(ci.setters.values()):
            yield fi.qualname, fi.node, ci


def mutation_sites(fn):
    """(kind, target expression node, node) for every heap store / in-place mutation in a function body"""
    for sub in ast.walk(fn):
        if isinstance(sub, (ast.Attribute, ast.Subscript)) and isinstance(sub.ctx, (ast.Store, ast.Del)):
            yield ("store", sub, sub)
        elif isinstance(sub, ast.AugAssign) and isinstance(sub.target, (ast.Attribute, ast.Subscript)):
            yield ("augstore", sub.target, sub)
        elif isinstance(sub, ast.Call) and isinstance(sub.func, ast.Attribute) and sub.func.attr in MUTATORS:
            yield ("mutcall", sub.func.value, sub)


ALLOWED_GLOBAL_WRITES = {
    # the CLI's drawing entry point configures the module-level WSGI app before serving (not on the analysis path)
    ("sqllineage.drawing", "draw_lineage_graph", "app.root_path"),
    ("sqllineage.drawing", "draw_lineage_graph", "app.metadata_provider"),
    # executed once at import (idempotent constants patched into sqlparse's keyword tables), never per run
    ("sqllineage.core.parser.sqlparse", "_patch_adding_builtin_type", "KEYWORDS['STRING']"),
    ("sqllineage.core.parser.sqlparse", "_patch_adding_builtin_type", "KEYWORDS['DATETIME']"),
    ("sqllineage.core.parser.sqlparse", "_patch_updating_lateral_view_lexeme", "SQL_REGEX[i]"),
}
ALLOWED_MUTABLE_DEFAULTS = {
    ("sqllineage.core.models", "Table.__init__", "schema"): "Schema() evaluated at import: immutable after construction (no store to Schema.raw_name outside __init__, checked below)",
    ("sqllineage.runner", "LineageRunner.__init__", "metadata_provider"): "shared default DummyMetaDataProvider(): its metadata is {} forever (falsy), every lookup is gated by its truthiness (C13 K3), its session map is cleared by every run (C12 K1)",
    ("sqllineage.runner", "LineageRunner.__init__", "draw_options"): None,
}


IMMUTABLE_CTORS = {"str", "int", "float", "bool", "tuple", "frozenset", "bytes", "property", "staticmethod", "classmethod", "namedtuple", "NamedTuple", "TypeVar"}
ALLOWED_CLASS_OBJECTS = {
    ("sqllineage.config", "_SQLLineageConfigLoader", "config"): "read-only table of the known settings (name -> (type, default)); no store or mutation site anywhere (checked by the rules above)",
}


def scan(repo, pid="C12"):
    out = []

    def ob(name, ok, detail, clause):
        out.append({"name": f"{pid}:site:{name}", "status": "proved" if ok else "refuted", "detail": detail, "clause": clause, "backend": "syntactic scan", "kind": "K2-site"})

    instance_fields = {}
    for m in repo.modules.values():
        if m.name in repo.ghost:
            continue
        for ci in m.classes.values():
            instance_fields[(m.name, ci.name)] = None
    for m in sorted(repo.modules.values(), key=lambda x: x.name):
        if m.name in repo.ghost:
            continue
        mod_globals = set(m.globals)
        # R6/R1: module-level mutable containers
        for nm, g in sorted(m.globals.items()):
            if g[0] == "const" and _is_mutable_literal(g[1]) and not nm.isupper() and nm != "__all__":
                ob(f"{m.name}:<module>:{nm}", False, f"module-level mutable container `{nm}` (a channel between runs)", "no_module_level_mutable_state")
        for qual, fn, ci in _functions(m):
            locals_ = _local_names(fn)
            # R3: caching decorators / global statements
            for d in fn.decorator_list:
                dn = ast.unparse(d.func if isinstance(d, ast.Call) else d)
                if dn in CACHE_DECOS or dn.split(".")[-1] in ("lru_cache", "cache"):
                    ob(f"{m.name}:{qual}:@{dn}", False, "memoising decorator keeps results across runs", "no_cross_run_cache")
            for sub in ast.walk(fn):
                if isinstance(sub, (ast.Global, ast.Nonlocal)) and isinstance(sub, ast.Global):
                    ob(f"{m.name}:{qual}:global {','.join(sub.names)}", False, "global statement", "no_module_level_mutable_state")
            # R4: mutable defaults
            a = fn.args
            pos = a.posonlyargs + a.args
            for p, d in list(zip(pos[len(pos) - len(a.defaults):], a.defaults)) + [(p, d) for p, d in zip(a.kwonlyargs, a.kw_defaults) if d is not None]:
                if _is_mutable_literal(d) or isinstance(d, ast.Call):
                    key = (m.name, qual, p.arg)
                    ok = key in ALLOWED_MUTABLE_DEFAULTS
                    ob(f"{m.name}:{qual}:default {p.arg}={ast.unparse(d)}", ok, ALLOWED_MUTABLE_DEFAULTS.get(key) or "mutable default argument object shared by all calls", "no_shared_default_argument_state")
            # R1/R2: stores and mutations
            for kind, tgt, node in mutation_sites(fn):
                root = _root(tgt)
                text = ast.unparse(tgt)
                if not isinstance(root, ast.Name):
                    ob(f"{m.name}:{qual}:{text}", False, "store through an expression that is not rooted at a name", "stores_are_rooted_at_self_param_or_local")
                    continue
                r = root.id
                if r in IGNORED_ROOTS and r not in locals_:
                    continue
                if r in locals_:
                    # rooted at self / parameter / local: R2 for self/cls
                    first = (fn.args.posonlyargs + fn.args.args)[0].arg if (fn.args.posonlyargs + fn.args.args) else None
                    if ci is not None and r == first and isinstance(tgt, (ast.Attribute, ast.Subscript)):
                        # find the attribute name directly under self
                        n = tgt
                        attr = None
                        while isinstance(n, (ast.Attribute, ast.Subscript, ast.Call)):
                            if isinstance(n, ast.Attribute) and isinstance(n.value, ast.Name) and n.value.id == r:
                                attr = n.attr
                            n = n.value if not isinstance(n, ast.Call) else n.func
                        direct_store = isinstance(tgt, ast.Attribute) and isinstance(tgt.value, ast.Name) and kind == "store"
                        if attr is not None and not direct_store:
                            # in-place mutation of self.<attr>: <attr> must be per-instance state
                            inst = attr in repo.all_fields(ci)
                            cls_attr = repo.find_class_attr(ci, attr)
                            if not inst and cls_attr is not None:
                                ob(f"{m.name}:{qual}:{text}", False, f"in-place mutation of class-level attribute `{attr}` shared by every instance", "no_shared_class_state")
                            else:
                                ob(f"{m.name}:{qual}:{text}", True, "per-instance state", "no_shared_class_state")
                    continue
                # not a local: a module-level (or builtin) name
                if (m.name, qual.split(".")[-1], text) in ALLOWED_GLOBAL_WRITES or (m.name, qual, text) in ALLOWED_GLOBAL_WRITES:
                    ob(f"{m.name}:{qual}:{text}", True, "allow-listed site (CLI drawing entry point / import-time constant patch), not a per-run channel", "no_module_level_mutable_state")
                else:
                    ob(f"{m.name}:{qual}:{text}", False, f"store/mutation rooted at module-level name `{r}`", "no_module_level_mutable_state")
    # R7: class-level objects shared by every instance (a channel between runs / providers even when only a library mutates them)
    for m in sorted(repo.modules.values(), key=lambda x: x.name):
        if m.name in repo.ghost:
            continue
        for ci in sorted(m.classes.values(), key=lambda c: c.name):
            for nm, val in sorted(ci.attrs.items()):
                v = val[0] if isinstance(val, tuple) else val
                if not isinstance(v, ast.AST):
                    continue
                shared = _is_mutable_literal(v) or (isinstance(v, ast.Call) and not (isinstance(v.func, ast.Name) and v.func.id in IMMUTABLE_CTORS))
                if not shared or nm.isupper() or nm.startswith("__"):
                    continue
                key = (m.name, ci.name, nm)
                ob(f"{m.name}:{ci.name}:class attribute {nm}", key in ALLOWED_CLASS_OBJECTS, ALLOWED_CLASS_OBJECTS.get(key) or f"class-level object `{nm} = {ast.unparse(v)[:40]}` is shared by every instance of {ci.name}", "no_shared_class_state")
    # R5: who touches the session map
    allowed_writers = {"MetaDataProvider.__init__", "MetaDataProvider.register_session_metadata", "MetaDataProvider.deregister_session_metadata"}
    allowed_callers = {"MetaDataSession.__exit__", "MetaDataSession.register_session_metadata", "LineageRunner._eval"}
    for m in sorted(repo.modules.values(), key=lambda x: x.name):
        if m.name in repo.ghost:
            continue
        for qual, fn, ci in _functions(m):
            for sub in ast.walk(fn):
                if isinstance(sub, ast.Attribute) and sub.attr == "_session_metadata":
                    is_write = isinstance(sub.ctx, ast.Store)
                    parent_mut = False
                    if not is_write:
                        for kind, tgt, node in mutation_sites(fn):
                            if any(x is sub for x in ast.walk(tgt)):
                                parent_mut = True
                    if is_write or parent_mut:
                        ob(f"{m.name}:{qual}:writes _session_metadata", qual in allowed_writers, "session map is written only by the provider's own three methods", "session_map_writers")
                    elif qual not in allowed_writers | {"MetaDataProvider.get_table_columns"}:
                        ob(f"{m.name}:{qual}:reads _session_metadata", False, "session map read outside get_table_columns", "session_map_readers")
                if isinstance(sub, ast.Call) and isinstance(sub.func, ast.Attribute) and sub.func.attr in ("register_session_metadata", "deregister_session_metadata"):
                    ob(f"{m.name}:{qual}:calls {sub.func.attr}", qual in allowed_callers, "session (de)registration only from the session object and the runner's evaluation", "session_map_callers")
    # the per-instance state the property names must be created in __init__
    for cname, fld in (("MetaDataProvider", "_session_metadata"), ("SqlFluffLineageAnalyzer", "tsql_split_cache")):
        ci = repo.classes.get(cname)
        ok = False
        if ci is not None and "__init__" in ci.methods:
            for sub in ast.walk(ci.methods["__init__"].node):
                if isinstance(sub, (ast.Assign, ast.AnnAssign)):
                    tgts = sub.targets if isinstance(sub, ast.Assign) else [sub.target]
                    for t in tgts:
                        if isinstance(t, ast.Attribute) and isinstance(t.value, ast.Name) and t.value.id == "self" and t.attr == fld:
                            ok = True
        ob(f"{cname}.__init__:creates {fld}", ok, f"{fld} is created afresh for every instance in __init__", "per_instance_state_created_in_init")
    # Schema objects (import-time default of Table.__init__) are immutable after construction
    for m in repo.modules.values():
        if m.name in repo.ghost:
            continue
        for qual, fn, ci in _functions(m):
            for kind, tgt, node in mutation_sites(fn):
                if isinstance(tgt, ast.Attribute) and tgt.attr == "raw_name" and not (ci is not None and qual.endswith(".__init__")):
                    ob(f"{m.name}:{qual}:{ast.unparse(tgt)}", False, "store to raw_name outside a constructor (model objects must be immutable)", "model_names_immutable")
    return out
