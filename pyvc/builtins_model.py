"""Models of Python's built-in operators, functions and container/str methods (assumed contracts, DESIGN §3.2 B).

Everything here is a *trusted* model of CPython; the conformance harness (bounded) compares the executable
reading of the risky ones (strip / lower / rsplit / dict / set primitives) with CPython itself.
"""
import ast

import z3

from . import sorts as S
from .sorts import V
from .state import And, Not, Or, OutsideSubset, Raised
from .values import (
    SV,
    SV_NONE,
    Facts,
    TAny,
    TBool,
    TDict,
    TGraph,
    TInt,
    TList,
    TNone,
    TObj,
    TOpt,
    TSet,
    TStr,
    TTuple,
    TTupleVar,
    TUnion,
    box,
    class_id,
    class_value,
    parse_type,
    strip_opt,
    sv_bool,
    sv_dict,
    sv_int,
    sv_list,
    sv_set,
    sv_str,
    sv_tuple,
    sv_v,
    unbox,
)

# uninterpreted string functions (axiomatised where a property needs it, see contracts/strings.py)
py_lower = z3.Function("py_lower", S.Str, S.Str)
py_upper = z3.Function("py_upper", S.Str, S.Str)
py_strip = z3.Function("py_strip", S.Str, S.Str, S.Str)  # s.strip(chars)
py_strip_ws = z3.Function("py_strip_ws", S.Str, S.Str)  # s.strip()
py_isnumeric = z3.Function("py_isnumeric", S.Str, S.Bool)
py_is_intlit = z3.Function("py_is_intlit", S.Str, S.Bool)  # int(s) succeeds
py_int_of = z3.Function("py_int_of", S.Str, S.Int)
py_replace = z3.Function("py_replace", S.Str, S.Str, S.Str, S.Str)
class_name_of = z3.Function("class_name_of", S.Int, S.Str)
set_card = z3.Function("set_card", S.SetS, S.Int)
any_order = z3.Function("any_order", S.SetS, S.SeqS)  # list(set): an arbitrary but fixed enumeration
any_order_pos = z3.Function("any_order_pos", S.SetS, V, S.Int)
sorted_by = z3.Function("sorted_by", S.SetS, S.MapS, S.SeqS)  # sorted(set, key): enumeration determined by set and key
sorted_by_pos = z3.Function("sorted_by_pos", S.SetS, S.MapS, V, S.Int)
hash_of = z3.Function("hash_of", V, S.Int)


def install(engine):
    engine.builtin_models.update(BUILTINS)
    engine.method_models.update(METHODS)


# ------------------------------------------------------------------------------------------------
# cardinality helper: facts tying set_card(S) to emptiness / singleton-ness
# ------------------------------------------------------------------------------------------------
def card_facts(s):
    c = set_card(s)
    ps = S.pair_set_body(s)
    if ps is not None:
        a, b, body = ps
        a2, b2 = S.fresh("ca", V), S.fresh("cb", V)
        body2 = z3.substitute(body, (a, a2), (b, b2))
        atmost1 = z3.ForAll([a, b, a2, b2], z3.Implies(And(body, body2), And(a == a2, b == b2)))
    else:
        x, y = S.fresh("cx", V), S.fresh("cy", V)
        atmost1 = z3.ForAll([x, y], z3.Implies(And(s[x], s[y]), x == y))
    return [c >= 0, (c == 0) == Not(S.set_nonempty(s)), (c <= 1) == atmost1]


def set_list_facts(s, n, arr, pos):
    """arr[0..n) enumerates exactly the members of s, without repetition (pos is the inverse)"""
    i, x = S.fresh("li", S.Int), S.fresh("lx", V)
    return [
        n == set_card(s),
        z3.ForAll([i], z3.Implies(And(0 <= i, i < n), And(s[arr[i]], pos(arr[i]) == i))),
        z3.ForAll([x], z3.Implies(s[x], And(0 <= pos(x), pos(x) < n, arr[pos(x)] == x))),
    ] + card_facts(s)


# ------------------------------------------------------------------------------------------------
# equality
# ------------------------------------------------------------------------------------------------
def eq_term(engine, st, a, b):
    """(state, z3 Bool) for Python's a == b under the interning assumption A_eq for user classes"""
    ka, kb = a.kind, b.kind
    if ka == "none" and kb == "none":
        return st, z3.BoolVal(True)
    prim = ("int", "bool", "str")
    if ka in prim and kb in prim:
        if ka == kb:
            return st, a.t == b.t
        if {ka, kb} == {"int", "bool"}:
            return st, engine.as_int(a) == engine.as_int(b)
        return st, z3.BoolVal(False)
    if ka == "tuple" and kb == "tuple":
        if len(a.t) != len(b.t):
            return st, z3.BoolVal(False)
        cs = []
        for x, y in zip(a.t, b.t):
            st, c = eq_term(engine, st, x, y)
            cs.append(c)
        return st, And(*cs)
    if ka == "set" and kb == "set":
        x = S.fresh("e", V)
        return st, z3.ForAll([x], a.t[x] == b.t[x])
    if ka == "list" and kb == "list":
        i = S.fresh("i", S.Int)
        return st, And(a.t[0] == b.t[0], z3.ForAll([i], z3.Implies(And(0 <= i, i < a.t[0]), a.t[1][i] == b.t[1][i])))
    if ka == "dict" and kb == "dict":
        x = S.fresh("e", V)
        return st, z3.ForAll([x], And(a.t[0][x] == b.t[0][x], z3.Implies(a.t[0][x], a.t[1][x] == b.t[1][x])))
    if ka == "class" and kb == "class":
        return st, z3.BoolVal(a.t == b.t)
    if ka in ("func", "module") or kb in ("func", "module"):
        return st, z3.BoolVal(a.t is b.t)
    if ka == "none":
        return st, (V.is_none(b.t) if kb == "v" else z3.BoolVal(False))
    if kb == "none":
        return st, (V.is_none(a.t) if ka == "v" else z3.BoolVal(False))
    # mixed: box both sides
    st, ba = engine.boxed(st, a)
    st, bb = engine.boxed(st, b)
    if {ka, kb} <= {"v", "int", "bool"} and ("int" in (ka, kb) or "bool" in (ka, kb)):
        # python: True == 1
        other = a if ka == "v" else b
        primv = b if ka == "v" else a
        pi = engine.as_int(primv)
        return st, Or(And(V.is_int(other.t), V.ival(other.t) == pi), And(V.is_bool_(other.t), z3.If(V.bval(other.t), 1, 0) == pi))
    return st, ba == bb


def compare(engine, st, op, a, b):
    if isinstance(op, (ast.Is, ast.IsNot)):
        neg = isinstance(op, ast.IsNot)
        c = is_term(engine, st, a, b)
        if isinstance(c, tuple):
            st, c = c
        yield st, sv_bool(Not(c) if neg else c)
        return
    if isinstance(op, (ast.Eq, ast.NotEq)):
        neg = isinstance(op, ast.NotEq)
        # user-defined __eq__ on the class being verified is executed; elsewhere A_eq applies
        for x, y in ((a, b), (b, a)):
            if x.kind == "v" and isinstance(strip_opt(x.ty), TObj) and not isinstance(x.ty, TOpt):
                cname = strip_opt(x.ty).cls
                ci = engine.repo.classes.get(cname)
                fi = ci and engine.repo.find_method(ci, "__eq__")
                if fi is not None and engine.exec_eq_for(cname):
                    for st1, r in engine.call_repo(fi, [x, y], {}, st):
                        if isinstance(r, Raised):
                            yield st1, r
                        else:
                            for st2, c in engine.truthy(st1, r):
                                yield st2, (c if isinstance(c, Raised) else sv_bool(Not(c) if neg else c))
                    return
                break
        st, c = eq_term(engine, st, a, b)
        yield st, sv_bool(Not(c) if neg else c)
        return
    if isinstance(op, (ast.Lt, ast.LtE, ast.Gt, ast.GtE)):
        if a.kind in ("int", "bool") or b.kind in ("int", "bool") or (a.kind == "v" and b.kind == "v" and a.ty == TInt):
            x, y = engine.as_int(a), engine.as_int(b)
            c = {ast.Lt: x < y, ast.LtE: x <= y, ast.Gt: x > y, ast.GtE: x >= y}[type(op)]
            yield st, sv_bool(c)
            return
        if a.kind == "str" and b.kind == "str":
            c = {ast.Lt: a.t < b.t, ast.LtE: a.t <= b.t, ast.Gt: b.t < a.t, ast.GtE: b.t <= a.t}[type(op)]
            yield st, sv_bool(c)
            return
        raise OutsideSubset(f"ordering on {a.kind}/{b.kind}")
    if isinstance(op, (ast.In, ast.NotIn)):
        neg = isinstance(op, ast.NotIn)
        for st1, c in contains(engine, st, b, a):
            yield st1, (c if isinstance(c, Raised) else sv_bool(Not(c) if neg else c))
        return
    raise OutsideSubset(f"compare op {type(op).__name__}")


def is_term(engine, st, a, b):
    if a.kind == "none" or b.kind == "none":
        o = b if a.kind == "none" else a
        if o.kind == "none":
            return z3.BoolVal(True)
        if o.kind == "v":
            return V.is_none(o.t)
        return z3.BoolVal(False)
    if a.kind == "bool" and b.kind == "bool":
        return a.t == b.t
    if a.kind == "class" and b.kind == "class":
        return z3.BoolVal(a.t == b.t)
    if a.kind == "class" or b.kind == "class":
        c, o = (a, b) if a.kind == "class" else (b, a)
        if o.kind == "v":
            return o.t == class_value(c.t)
        return z3.BoolVal(False)
    if "v" in (a.kind, b.kind) and {a.kind, b.kind} <= {"v", "bool", "int", "str"}:
        st, ba = engine.boxed(st, a)
        st, bb = engine.boxed(st, b)
        return st, ba == bb
    if a.kind == "v" and b.kind == "v":
        return a.t == b.t
    return z3.BoolVal(False)


def contains(engine, st, c, x):
    """x in c : generator (state, z3 Bool | Raised)"""
    k = c.kind
    if k == "set":
        st, bx = engine.boxed(st, x)
        yield st, c.t[bx]
    elif k == "dict":
        st, bx = engine.boxed(st, x)
        yield st, c.t[0][bx]
    elif k == "graph":
        # `n in G` is G.has_node(n)
        st, bx = engine.boxed(st, x)
        yield st, c.t[0][bx]
    elif k == "list" and c.origin is not None and c.origin[0] == "set":
        st, bx = engine.boxed(st, x)
        yield st, c.origin[1][bx]  # the list enumerates exactly this set
    elif k == "list":
        st, bx = engine.boxed(st, x)
        n = z3.simplify(c.t[0])
        if z3.is_int_value(n) and n.as_long() <= 40:
            # a literal list: plain disjunction (no quantifier)
            yield st, Or(*[z3.simplify(c.t[1][i]) == bx for i in range(n.as_long())])
            return
        i = S.fresh("i", S.Int)
        yield st, z3.Exists([i], And(0 <= i, i < c.t[0], c.t[1][i] == bx))
    elif k == "tuple":
        cs = []
        for it in c.t:
            st, e = eq_term(engine, st, it, x)
            cs.append(e)
        yield st, Or(*cs)
    elif k == "str":
        if x.kind == "str":
            yield st, z3.Contains(c.t, x.t)
        elif x.kind == "v":
            yield st, z3.Contains(c.t, V.sval(x.t))
        else:
            yield st, Raised("TypeError", where="in str")
    elif k == "v":
        inner = strip_opt(c.ty)
        if isinstance(inner, (TSet, TList, TDict, TTuple)):
            st1, u = engine.unboxed(st, c.t, inner)
            yield from contains(engine, st1, u, x)
        elif inner == TStr:
            yield from contains(engine, st, sv_str(V.sval(c.t)), x)
        elif inner == TAny:
            for st1, iss in engine.fork(st, V.is_str_(c.t)):
                if iss:
                    yield from contains(engine, st1, sv_str(V.sval(c.t)), x)
                else:
                    yield st1, Raised("TypeError", where="`in` on a non-str dynamic value")
        else:
            raise OutsideSubset(f"`in` on {c.ty}")
    elif k == "view":
        yield from c.t["contains"](engine, st, x)
    else:
        raise OutsideSubset(f"`in` on {k}")


# ------------------------------------------------------------------------------------------------
# binary operators
# ------------------------------------------------------------------------------------------------
def binop(engine, st, op, a, b, n):
    if a.kind == "v" and isinstance(strip_opt(a.ty), TObj):
        cname = strip_opt(a.ty).cls
        ci = engine.repo.classes.get(cname)
        dunder = {ast.BitOr: "__or__", ast.Add: "__add__", ast.Sub: "__sub__"}.get(type(op))
        fi = ci and dunder and engine.repo.find_method(ci, dunder)
        if fi is not None:
            yield from engine.call_repo(fi, [a, b], {}, st)
            return
    ints = ("int", "bool")
    if isinstance(op, ast.Add):
        if a.kind in ints and b.kind in ints:
            yield st, sv_int(engine.as_int(a) + engine.as_int(b))
        elif a.kind == "str" and b.kind == "str":
            yield st, sv_str(z3.Concat(a.t, b.t))
        elif a.kind == "str" and b.kind == "v":
            for st1, ok in engine.fork(st, V.is_str_(b.t)):
                yield (st1, sv_str(z3.Concat(a.t, V.sval(b.t)))) if ok else (st1, Raised("TypeError", where="str+"))
        elif a.kind == "v" and b.kind == "str":
            for st1, ok in engine.fork(st, V.is_str_(a.t)):
                yield (st1, sv_str(z3.Concat(V.sval(a.t), b.t))) if ok else (st1, Raised("TypeError", where="+str"))
        elif a.kind == "list" and b.kind == "list":
            yield st, list_concat(a, b)
        elif a.kind == "tuple" and b.kind == "tuple":
            yield st, sv_tuple(a.t + b.t)
        elif a.kind == "v" and b.kind == "v" and strip_opt(a.ty) == TInt:
            yield st, sv_int(V.ival(a.t) + V.ival(b.t))
        else:
            raise OutsideSubset(f"+ on {a.kind}/{b.kind}")
    elif isinstance(op, ast.Sub):
        if a.kind in ints and b.kind in ints:
            yield st, sv_int(engine.as_int(a) - engine.as_int(b))
        elif a.kind == "set" and b.kind == "set":
            x = S.fresh("x", V)
            yield st, SV("set", z3.Lambda([x], And(a.t[x], Not(b.t[x]))), a.ty)
        else:
            raise OutsideSubset(f"- on {a.kind}/{b.kind}")
    elif isinstance(op, ast.Mult) and a.kind in ints and b.kind in ints:
        yield st, sv_int(engine.as_int(a) * engine.as_int(b))
    elif isinstance(op, ast.Mod) and a.kind in ints and b.kind in ints:
        for st1, z in engine.fork(st, engine.as_int(b) == 0):
            if z:
                yield st1, Raised("ZeroDivisionError")
            else:
                yield st1, sv_int(engine.as_int(a) % engine.as_int(b))
    elif isinstance(op, ast.Mod) and a.kind == "str":
        st1, bb = engine.boxed(st, b)
        yield st1, sv_str(z3.Function("str_format", S.Str, V, S.Str)(a.t, bb))
    elif isinstance(op, ast.FloorDiv) and a.kind in ints and b.kind in ints:
        for st1, z in engine.fork(st, engine.as_int(b) == 0):
            if z:
                yield st1, Raised("ZeroDivisionError")
            else:
                yield st1, sv_int(engine.as_int(a) / engine.as_int(b))
    elif isinstance(op, ast.BitOr):
        if a.kind == "set" and b.kind == "set":
            x = S.fresh("x", V)
            yield st, SV("set", z3.Lambda([x], Or(a.t[x], b.t[x])), a.ty)
        elif a.kind == "dict" and b.kind == "dict":
            x = S.fresh("x", V)
            yield st, SV("dict", (z3.Lambda([x], Or(a.t[0][x], b.t[0][x])), z3.Lambda([x], z3.If(b.t[0][x], b.t[1][x], a.t[1][x]))), a.ty)
        else:
            raise OutsideSubset(f"| on {a.kind}/{b.kind}")
    elif isinstance(op, ast.BitAnd) and a.kind == "set" and b.kind == "set":
        x = S.fresh("x", V)
        yield st, SV("set", z3.Lambda([x], And(a.t[x], b.t[x])), a.ty)
    else:
        raise OutsideSubset(f"binop {type(op).__name__} on {a.kind}/{b.kind}")


def list_concat(a, b):
    i = S.fresh("i", S.Int)
    la, aa = a.t
    lb, ab = b.t
    return SV("list", (la + lb, z3.Lambda([i], z3.If(i < la, aa[i], ab[i - la]))), a.ty)


# ------------------------------------------------------------------------------------------------
# attribute load
# ------------------------------------------------------------------------------------------------
def load_attr(engine, st, o, attr, node):
    k = o.kind
    if k == "module":
        mod = o.t
        if mod in engine.repo.modules:
            r = engine.repo.resolve_global(engine.repo.modules[mod], attr)
            sv = engine.global_to_sv(r, f"{mod}.{attr}")
            if sv is None:
                sub = f"{mod}.{attr}"
                if sub in engine.repo.modules:
                    yield st, SV("module", sub)
                    return
                raise OutsideSubset(f"module attribute {mod}.{attr}")
            yield st, sv
            return
        dotted = f"{mod}.{attr}"
        if dotted in engine.ext_models or attr in engine.exc_parent and dotted not in engine.ext_models:
            if attr in engine.exc_parent and dotted not in engine.ext_models:
                yield st, SV("class", attr)
            else:
                yield st, SV("func", ("ext", dotted))
            return
        if dotted in ("os.environ", "os.path", "sqlparse.tokens", "nx.classes"):
            yield st, SV("module", dotted)
            return
        if attr in engine.opaque_classes:
            yield st, SV("class", attr)
            return
        if dotted in engine.ext_consts:
            yield st, engine.ext_consts[dotted](engine)
            return
        raise OutsideSubset(f"external name {dotted}")
    if k == "class":
        cname = o.t
        if attr == "__name__":
            yield st, sv_str(cname)
            return
        ci = engine.repo.classes.get(cname)
        if ci is not None:
            a = engine.repo.find_class_attr(ci, attr)
            if a is not None:
                expr, owner = a
                yield st, engine.eval_const(expr, owner.module, f"{owner.module.name}.{owner.name}.{attr}")
                return
            fi = engine.repo.find_method(ci, attr)
            if fi is not None:
                yield st, SV("func", ("repo", fi, o if fi.is_classmethod else None))
                return
            if attr == "__subclasses__":
                yield st, SV("func", ("subclasses", cname))
                return
        oc = engine.opaque_classes.get(cname)
        if oc and attr in oc.get("class_attrs", {}):
            yield st, oc["class_attrs"][attr](engine)
            return
        raise OutsideSubset(f"class attribute {cname}.{attr}")
    if k == "v":
        ty = o.ty
        inner = strip_opt(ty)
        if isinstance(ty, TOpt):
            for st1, isn in engine.fork(st, V.is_none(o.t)):
                if isn:
                    yield st1, Raised("AttributeError", where=f"None.{attr}")
                else:
                    yield from load_attr(engine, st1, sv_v(o.t, inner), attr, node)
            return
        if isinstance(inner, TObj):
            yield from load_obj_attr(engine, st, o, inner.cls, attr, node)
            return
        if isinstance(inner, TUnion) and all(isinstance(i, TObj) for i in inner.items):
            yield from _union_attr(engine, st, o, list(inner.items), attr, node)
            return
        if inner in (TStr, TInt, TBool) or isinstance(inner, (TSet, TList, TDict, TTuple)) or inner == TGraph:
            st1, u = engine.unboxed(st, o.t, inner)
            u.origin = o.origin
            yield from load_attr(engine, st1, u, attr, node)
            return
        if inner == TAny:
            # dynamic dispatch on the primitive kinds that have this method; everything else: AttributeError
            if (("str", attr) in engine.method_models) or attr in STR_ATTRS:
                for st1, iss in engine.fork(st, V.is_str_(o.t)):
                    if iss:
                        yield from load_attr(engine, st1, sv_str(V.sval(o.t)), attr, node)
                    else:
                        yield st1, Raised("AttributeError", where=f"<non-str>.{attr}")
                return
            # dynamic dispatch over the repository's classes that have this attribute (exact run-time class)
            cands = []
            seen = set()
            for c in engine.repo.classes.values():
                if id(c) in seen:
                    continue
                seen.add(id(c))
                if attr in engine.repo.all_fields(c) or engine.repo.find_method(c, attr) is not None or engine.repo.find_class_attr(c, attr) is not None or engine.field_type(c.name, attr) is not None:
                    cands.append(c)
            cands.sort(key=lambda c: c.name)
            # opaque (third-party) classes that are modelled with this member
            rest0 = st
            handled = False
            for oname in sorted(engine.opaque_classes):
                oc = engine.opaque_classes[oname]
                if attr in oc.get("fields", {}) or attr in oc.get("methods", {}) or attr in oc.get("props", {}):
                    nxt = None
                    for st1, hit in engine.fork(rest0, And(V.is_obj(o.t), S.cls_of(V.oid(o.t)) == class_id(oname))):
                        if hit:
                            yield from load_obj_attr(engine, st1, sv_v(o.t, TObj(oname)), oname, attr, node)
                        else:
                            nxt = st1
                    if nxt is None:
                        return
                    rest0 = nxt
            st = rest0
            if not cands:
                # a method of an external object (e.g. environ["wsgi.input"].read): opaque -- returns anything or raises
                if engine.spec_ctx or engine.spec_depth:
                    yield st, Raised("AttributeError", where=f"<dynamic>.{attr}")
                    return
                engine.used_models.add(f"opaque-external-method:{attr}")

                def opaque(engine, st, args, kwargs, node, attr=attr):
                    if not (engine.spec_ctx or engine.spec_depth):
                        yield st, Raised("<unknown>", where=f"external .{attr}()")
                    yield st, sv_v(S.fresh("ext_" + attr, V), TAny)

                yield st, SV("func", ("py", opaque))
                return
            rest = st
            for c in cands:
                nxt = None
                for st1, hit in engine.fork(rest, And(V.is_obj(o.t), S.cls_of(V.oid(o.t)) == class_id(c.name))):
                    if hit:
                        yield from load_obj_attr(engine, st1, sv_v(o.t, TObj(c.name)), c.name, attr, node)
                    else:
                        nxt = st1
                if nxt is None:
                    return
                rest = nxt
            # none of the repository's classes: an external object (opaque member) -- returns anything or raises
            if engine.spec_ctx or engine.spec_depth:
                yield rest, Raised("AttributeError", where=f"<dynamic>.{attr}")
                return
            engine.used_models.add(f"opaque-external-member:{attr}")

            def opaque2(engine, st, args, kwargs, node, attr=attr):
                if not (engine.spec_ctx or engine.spec_depth):
                    yield st, Raised("<unknown>", where=f"external .{attr}()")
                yield st, sv_v(S.fresh("ext_" + attr, V), TAny)

            yield rest, SV("func", ("py", opaque2))
            return
        raise OutsideSubset(f"attribute {attr} on {ty}")
    if k == "tuple":
        # NamedTuple instances
        if isinstance(o.ty, TObj) and o.ty.cls in engine.named_tuples():
            fields = engine.named_tuples()[o.ty.cls][0]
            for i, (fname, fty, _) in enumerate(fields):
                if fname == attr:
                    yield st, o.t[i]
                    return
        raise OutsideSubset(f"attribute {attr} on tuple")
    if k == "super":
        selfv, cls = o.t
        dyn = engine.repo.classes.get(strip_opt(selfv.ty).cls, cls)
        fi = engine.repo.find_method(dyn, attr, after=cls) if cls in engine.repo.mro(dyn) else engine.repo.find_method(cls, attr, after=cls)
        if fi is None:
            raise OutsideSubset(f"super().{attr}")
        if fi.is_property:
            yield from engine.call_repo(fi, [selfv], {}, st, node)
        else:
            yield st, SV("func", ("repo", fi, None if fi.is_static else selfv))
        return
    if k == "exc":
        if attr == "value" or attr == "args":
            yield st, sv_v(S.fresh("excattr", V), TAny)
            return
        raise OutsideSubset(f"attribute {attr} on exception")
    if (k, attr) in engine.method_models:
        yield st, SV("func", ("method", o, attr, getattr(node, "value", None)))
        return
    if k == "namespace":
        yield from engine.ns_getattr(engine, st, o, attr, None)
        return
    if k == "httpstatus":
        if attr == "value":
            yield st, sv_int(o.t[0])
            return
        if attr == "phrase":
            yield st, sv_str(o.t[1])
            return
    if k == "pathobj":
        v = engine.path_attr(engine, st, o, attr)
        if v is not None:
            yield st, v
            return
    if k == "graph":
        v = engine.graph_attr(engine, st, o, attr)
        if v is not None:
            yield st, v
            return
    if k == "dynclass" and attr == "__name__":
        from .values import class_id as _cid

        x = o.t
        facts = [class_name_of(z3.IntVal(_cid(c.name))) == z3.StringVal(c.name) for c in set(engine.repo.classes.values())]
        yield st.with_facts(facts), sv_str(class_name_of(S.cls_of(V.oid(x.t))))
        return
    if k == "view" and attr in o.t.get("attrs", {}):
        yield from o.t["attrs"][attr](engine, st)
        return
    raise OutsideSubset(f"attribute {attr} on {k}")


STR_ATTRS = {"removeprefix", "removesuffix", "find", "rfind", "lstrip", "rstrip", "format", "title", "lower", "upper", "strip", "startswith", "endswith", "split", "rsplit", "replace", "isnumeric", "join", "encode"}


def _union_attr(engine, st, o, items, attr, node):
    if len(items) == 1:
        yield from load_obj_attr(engine, st, sv_v(o.t, items[0]), items[0].cls, attr, node)
        return
    head = items[0]
    for st1, ish in engine.fork(st, engine.instance_of(o.t, head.cls)):
        if ish:
            yield from load_obj_attr(engine, st1, sv_v(o.t, head), head.cls, attr, node)
        else:
            yield from _union_attr(engine, st1, o, items[1:], attr, node)


def load_obj_attr(engine, st, o, cname, attr, node):
    ci = engine.repo.classes.get(cname)
    if ci is None:
        oc = engine.opaque_classes.get(cname)
        if oc is None:
            raise OutsideSubset(f"attribute {attr} on unknown class {cname}")
        if attr in oc.get("fields", {}):
            st1, sv = engine.read_field(st, o.t, cname, attr)
            yield st1, sv
            return
        if attr in oc.get("methods", {}):
            yield st, SV("func", ("opaque_method", o, cname, attr))
            return
        if attr in oc.get("props", {}):
            yield from oc["props"][attr](engine, st, o)
            return
        raise OutsideSubset(f"attribute {attr} on opaque class {cname}")
    fi = engine.repo.find_method(ci, attr)
    if fi is not None and not st.ghost.get("no_virtual") and not fi.is_static and fi.fq not in engine.contracts:
        # virtual dispatch inside the repository's own class hierarchies: the run-time class may be a subclass that
        # overrides the member (a member under contract is used through its contract instead: behavioural subtyping)
        overriding = []
        for sub in engine.repo.subclasses(cname):
            if sub is ci:
                continue
            fs = engine.repo.find_method(sub, attr)
            if fs is not None and fs is not fi and fs.cls is not None and fs.cls is not fi.cls and sub.name not in [x.name for x in overriding]:
                overriding.append(sub)
        if overriding:
            # most derived first
            overriding.sort(key=lambda c: -len(engine.repo.mro(c)))
            rest = st
            for sub in overriding:
                nxt = None
                for st1, hit in engine.fork(rest, engine.instance_of(o.t, sub.name)):
                    if hit:
                        yield from load_obj_attr(engine, st1.with_ghost("no_virtual", True), sv_v(o.t, TObj(sub.name)), sub.name, attr, node)
                    else:
                        nxt = st1
                if nxt is None:
                    return
                rest = nxt
            st = rest.with_ghost("no_virtual", True)
    if st.ghost.get("no_virtual"):
        st = st.with_ghost("no_virtual", False)
    if fi is not None and fi.is_property:
        yield from engine.call_repo(fi, [o], {}, st, node)
        return
    hook = None
    for c_ in engine.repo.mro(ci):
        hook = hook or engine.field_hooks.get((c_.name, attr))
    if hook is not None:
        yield from hook(engine, st, o)
        return
    if attr in engine.repo.all_fields(ci) or engine.field_type(cname, attr) is not None:
        st1, sv = engine.read_field(st, o.t, cname, attr)
        yield st1, sv
        return
    a = engine.repo.find_class_attr(ci, attr)
    if a is not None:
        expr, owner = a
        yield st, engine.eval_const(expr, owner.module, f"{owner.module.name}.{owner.name}.{attr}")
        return
    if fi is not None:
        if fi.is_static:
            yield st, SV("func", ("repo", fi, None))
        elif fi.is_classmethod:
            yield st, SV("func", ("repo", fi, SV("class", cname)))
        else:
            yield st, SV("func", ("repo", fi, o))
        return
    ga = engine.repo.find_method(ci, "__getattr__")
    if ga is not None:
        yield from engine.call_repo(ga, [o, sv_str(attr)], {}, st, node)
        return
    if attr == "__class__":
        yield st, SV("dynclass", o)
        return
    yield st, Raised("AttributeError", where=f"{cname}.{attr}")


# ------------------------------------------------------------------------------------------------
# subscripts
# ------------------------------------------------------------------------------------------------
def _known_nonneg(st, i):
    """syntactic: the path condition contains 0 <= i (or i >= 0) for this very term"""
    for h in st.pc[-12:]:
        for c in (h.children() if z3.is_and(h) else [h]):
            if z3.is_app(c) and c.num_args() == 2:
                a, b = c.arg(0), c.arg(1)
                k = c.decl().kind()
                if k == z3.Z3_OP_LE and a.eq(z3.IntVal(0)) and b.eq(i):
                    return True
                if k == z3.Z3_OP_GE and a.eq(i) and b.eq(z3.IntVal(0)):
                    return True
    return False


def _norm_index(engine, st, ln, idx):
    """python index normalisation: generator of (state, z3 Int index | Raised IndexError)"""
    i = engine.as_int(idx)
    si = z3.simplify(i)
    if z3.is_int_value(si):
        j = si if si.as_long() >= 0 else z3.simplify(si + ln)
    elif _known_nonneg(st, i):
        j = i  # keeps the index term syntactically simple (it is an E-matching trigger in quantified clauses)
    else:
        j = z3.If(i < 0, i + ln, i)
    for st1, ok in engine.fork(st, And(0 <= j, j < ln)):
        yield (st1, z3.simplify(j)) if ok else (st1, Raised("IndexError", where="index"))


def _slice_bounds(engine, ln, sl):
    lo, hi, step = sl.t
    if step is not None:
        raise OutsideSubset("slice with step")

    def clamp(x, dflt):
        if x is None or x.kind == "none":
            return dflt
        i = engine.as_int(x)
        i = z3.If(i < 0, i + ln, i)
        return z3.If(i < 0, 0, z3.If(i > ln, ln, i))

    a = clamp(lo, z3.IntVal(0))
    b = clamp(hi, ln)
    return a, z3.If(b < a, a, b)


def getitem(engine, st, c, k):
    kind = c.kind
    if kind == "list":
        ln, arr = c.t
        elem = c.ty.elem if isinstance(c.ty, TList) else TAny
        if k.kind == "slice":
            a, b = _slice_bounds(engine, ln, k)
            i = S.fresh("i", S.Int)
            yield st, SV("list", (z3.simplify(b - a), z3.Lambda([i], arr[i + a])), c.ty)
            return
        for st1, j in _norm_index(engine, st, ln, k):
            if isinstance(j, Raised):
                yield st1, j
            else:
                st2, u = engine.unboxed(st1, arr[j], elem)
                yield st2, u
    elif kind == "tuple":
        if k.kind == "slice":
            lo, hi, step = k.t
            def cv(x):
                if x is None or x.kind == "none":
                    return None
                v = z3.simplify(engine.as_int(x))
                if not z3.is_int_value(v):
                    raise OutsideSubset("symbolic slice of tuple")
                return v.as_long()
            yield st, sv_tuple(c.t[cv(lo):cv(hi)])
            return
        i = z3.simplify(engine.as_int(k))
        if z3.is_int_value(i):
            j = i.as_long()
            if -len(c.t) <= j < len(c.t):
                yield st, c.t[j]
            else:
                yield st, Raised("IndexError", where="tuple index")
        else:
            raise OutsideSubset("symbolic index into a fixed tuple")
    elif kind == "dict":
        dom, mp = c.t
        vt = c.ty.v if isinstance(c.ty, TDict) else TAny
        st, bk = engine.boxed(st, k)
        for st1, ok in engine.fork(st, dom[bk]):
            if ok:
                st2, u = engine.unboxed(st1, mp[bk], vt)
                u.origin = None
                yield st2, u
            else:
                yield st1, Raised("KeyError", where="dict[]")
    elif kind == "str":
        ln = z3.Length(c.t)
        if k.kind == "slice":
            a, b = _slice_bounds(engine, ln, k)
            yield st, sv_str(z3.SubString(c.t, a, b - a))
            return
        for st1, j in _norm_index(engine, st, ln, k):
            yield (st1, j) if isinstance(j, Raised) else (st1, sv_str(z3.SubString(c.t, j, 1)))
    elif kind == "v":
        inner = strip_opt(c.ty)
        if isinstance(c.ty, TOpt):
            for st1, isn in engine.fork(st, V.is_none(c.t)):
                if isn:
                    yield st1, Raised("TypeError", where="None[]")
                else:
                    yield from getitem(engine, st1, sv_v(c.t, inner), k)
            return
        if isinstance(inner, (TList, TDict, TTuple)) or inner == TStr:
            st1, u = engine.unboxed(st, c.t, inner)
            yield from getitem(engine, st1, u, k)
            return
        if isinstance(inner, TTupleVar):
            b = V.bid(c.t)
            u = sv_list(S.unb_list_len(b), S.unb_list_arr(b), inner.elem)
            yield from getitem(engine, st, u, k)
            return
        if isinstance(inner, TObj):
            oc = engine.opaque_classes.get(inner.cls)
            if oc and "__getitem__" in oc.get("methods", {}):
                yield from oc["methods"]["__getitem__"](engine, st, c, [k], {}, None)
                return
        if inner == TAny and k.kind == "int" and z3.is_int_value(z3.simplify(k.t)) and z3.simplify(k.t).as_long() in (0, 1):
            idx = z3.simplify(k.t).as_long()
            for st1, ok in engine.fork(st, V.is_pair(c.t)):
                if ok:
                    yield st1, sv_v(V.fst(c.t) if idx == 0 else V.snd(c.t), TAny)
                else:
                    yield st1, Raised("TypeError", where="subscript of a non-pair")
            return
        raise OutsideSubset(f"subscript on {c.ty}")
    elif kind == "view":
        yield from c.t["getitem"](engine, st, k)
    else:
        raise OutsideSubset(f"subscript on {kind}")


def setitem(engine, st, c, k, v):
    """returns the *new container value* (value semantics)"""
    kind = c.kind
    if kind == "dict":
        dom, mp = c.t
        st, bk = engine.boxed(st, k)
        st, bv = engine.boxed(st, v)
        yield st, SV("dict", (z3.Store(dom, bk, z3.BoolVal(True)), z3.Store(mp, bk, bv)), c.ty, c.origin)
    elif kind == "list":
        ln, arr = c.t
        st, bv = engine.boxed(st, v)
        for st1, j in _norm_index(engine, st, ln, k):
            yield (st1, j) if isinstance(j, Raised) else (st1, SV("list", (ln, z3.Store(arr, j, bv)), c.ty, c.origin))
    elif kind == "v" and isinstance(strip_opt(c.ty), (TDict, TList)):
        st1, u = engine.unboxed(st, c.t, strip_opt(c.ty))
        u.origin = c.origin
        yield from setitem(engine, st1, u, k, v)
    else:
        raise OutsideSubset(f"item assignment on {kind}:{c.ty}")


# ------------------------------------------------------------------------------------------------
# iteration sources as lists / sets (shared by builtins that consume iterables)
# ------------------------------------------------------------------------------------------------
def to_set(engine, st, x):
    """set(x): generator (state, SV set | Raised)"""
    if x.kind == "set":
        yield st, x
    elif x.kind == "list" and x.origin is not None and x.origin[0] == "set":
        yield st, sv_set(x.origin[1], x.ty.elem if isinstance(x.ty, TList) else TAny)
    elif x.kind == "list":
        ln, arr = x.t
        y, i = S.fresh("y", V), S.fresh("i", S.Int)
        yield st, sv_set(z3.Lambda([y], z3.Exists([i], And(0 <= i, i < ln, arr[i] == y))), x.ty.elem if isinstance(x.ty, TList) else TAny)
    elif x.kind == "tuple":
        f = Facts()
        arr = S.EMPTY_SET
        for it in x.t:
            arr = z3.Store(arr, box(it, f), z3.BoolVal(True))
        yield st.with_facts(f), sv_set(arr, TAny)
    elif x.kind == "dict":
        yield st, sv_set(x.t[0], x.ty.k if isinstance(x.ty, TDict) else TAny)
    elif x.kind == "view" and "as_set" in x.t:
        yield from x.t["as_set"](engine, st)
    elif x.kind == "view" and "plan" in x.t:
        yield from view_to_set(engine, st, x)
    elif x.kind == "genexp":
        from .loops import genexp_to

        yield from genexp_to(engine, st, x, "set")
    elif x.kind == "v" and isinstance(strip_opt(x.ty), (TSet, TList, TDict)):
        st1, u = engine.unboxed(st, x.t, strip_opt(x.ty))
        yield from to_set(engine, st1, u)
    else:
        raise OutsideSubset(f"set() of {x.kind}")


def view_to_set(engine, st, view):
    """the set of elements an iterable view (graph views, products, ...) hands out: built from its iteration plan"""
    from .loops import _invert

    for st1, plan in view.t["plan"](engine, st):
        if isinstance(plan, Raised):
            yield st1, plan
            continue
        if plan.kind != "setlike":
            raise OutsideSubset("set()/list() of an ordered view")
        st2, elt = plan.decode(st1)
        f = Facts()
        b = box(elt, f)
        inv = _invert(b, plan.vars)
        if inv is not None:
            y, g, sub = inv
            body = And(g, z3.substitute(plan.mem, *sub))
        else:
            y = S.fresh("y", V)
            body = z3.Exists(plan.vars, And(plan.mem, b == y))
        yield st2.with_facts(f), sv_set(z3.Lambda([y], body), elt.ty)


def to_list(engine, st, x):
    """list(x): generator (state, SV list | Raised)"""
    if x.kind == "list":
        yield st, SV("list", x.t, x.ty)
    elif x.kind == "tuple":
        yield engine.make_list(st, x.t)
    elif x.kind == "set":
        s = x.t
        n = S.fresh("n", S.Int)
        arr = any_order(s)
        pos = lambda v: any_order_pos(s, v)
        res = sv_list(n, arr, x.ty.elem if isinstance(x.ty, TSet) else TAny)
        res.origin = ("set", s)  # an enumeration of exactly this set: set(list(S)) is S again
        yield st.with_facts(set_list_facts(s, n, arr, pos)), res
    elif x.kind == "dict":
        yield from to_list(engine, st, sv_set(x.t[0], x.ty.k if isinstance(x.ty, TDict) else TAny))
    elif x.kind == "view" and "as_list" in x.t:
        yield from x.t["as_list"](engine, st)
    elif x.kind == "view" and "as_set" in x.t:
        for st1, s in x.t["as_set"](engine, st):
            yield from to_list(engine, st1, s)
    elif x.kind == "view" and "plan" in x.t:
        for st1, s_ in view_to_set(engine, st, x):
            if isinstance(s_, Raised):
                yield st1, s_
            else:
                yield from to_list(engine, st1, s_)
    elif x.kind == "genexp":
        from .loops import genexp_to

        yield from genexp_to(engine, st, x, "list")
    elif x.kind == "v" and isinstance(strip_opt(x.ty), (TSet, TList, TDict, TTuple)):
        st1, u = engine.unboxed(st, x.t, strip_opt(x.ty))
        yield from to_list(engine, st1, u)
    elif x.kind == "str":
        raise OutsideSubset("list(str)")
    else:
        raise OutsideSubset(f"list() of {x.kind}")


# ------------------------------------------------------------------------------------------------
# builtin functions:  fn(engine, st, args, kwargs, node) -> generator (state, SV | Raised)
# ------------------------------------------------------------------------------------------------
def b_len(engine, st, args, kwargs, node):
    (x,) = args
    k = x.kind
    if k == "list":
        yield st, sv_int(x.t[0])
    elif k == "tuple":
        yield st, sv_int(len(x.t))
    elif k == "str":
        yield st, sv_int(z3.Length(x.t))
    elif k == "set":
        yield st.with_facts(card_facts(x.t)), sv_int(set_card(x.t))
    elif k == "dict":
        yield st.with_facts(card_facts(x.t[0])), sv_int(set_card(x.t[0]))
    elif k == "v":
        inner = strip_opt(x.ty)
        if isinstance(inner, (TSet, TList, TDict, TTuple)) or inner == TStr:
            st1, u = engine.unboxed(st, x.t, inner)
            yield from b_len(engine, st1, [u], {}, node)
        elif isinstance(inner, TTupleVar):
            yield st, sv_int(S.unb_list_len(V.bid(x.t)))
        else:
            raise OutsideSubset(f"len of {x.ty}")
    elif k == "view" and "len" in x.t:
        yield from x.t["len"](engine, st)
    elif k == "view" and "as_set" in x.t:
        for st1, sset in x.t["as_set"](engine, st):
            yield from b_len(engine, st1, [sset], {}, node)
    else:
        raise OutsideSubset(f"len of {k}")


def b_str(engine, st, args, kwargs, node):
    if not args:
        yield st, sv_str("")
        return
    yield from engine.to_str(st, args[0])


def b_repr(engine, st, args, kwargs, node):
    st1, b = engine.boxed(st, args[0])
    yield st1, sv_str(z3.Function("repr_of", V, S.Str)(b))


def b_bool(engine, st, args, kwargs, node):
    if not args:
        yield st, sv_bool(False)
        return
    for st1, c in engine.truthy(st, args[0]):
        yield (st1, c) if isinstance(c, Raised) else (st1, sv_bool(c))


def b_int(engine, st, args, kwargs, node):
    (x,) = args[:1]
    k = x.kind
    if k == "int":
        yield st, x
    elif k == "bool":
        yield st, sv_int(engine.as_int(x))
    elif k == "str":
        for st1, ok in engine.fork(st, py_is_intlit(x.t)):
            yield (st1, sv_int(py_int_of(x.t))) if ok else (st1, Raised("ValueError", where="int()"))
    elif k == "none":
        yield st, Raised("TypeError", where="int(None)")
    elif k == "v":
        v = x.t
        for st1, a in engine.fork(st, V.is_int(v)):
            if a:
                yield st1, sv_int(V.ival(v))
                continue
            for st2, b in engine.fork(st1, V.is_bool_(v)):
                if b:
                    yield st2, sv_int(z3.If(V.bval(v), 1, 0))
                    continue
                for st3, c in engine.fork(st2, V.is_str_(v)):
                    if c:
                        yield from b_int(engine, st3, [sv_str(V.sval(v))], {}, node)
                    else:
                        yield st3, Raised("TypeError", where="int(<non-number>)")
    else:
        yield st, Raised("TypeError", where=f"int({k})")


def _class_names(engine, c):
    """flatten isinstance's second argument into class names"""
    if c.kind == "class":
        return [c.t]
    if c.kind == "tuple":
        out = []
        for i in c.t:
            out.extend(_class_names(engine, i))
        return out
    raise OutsideSubset("isinstance with a non-class second argument")


def isinstance_term(engine, x, names):
    k = x.kind
    prim = {"str": "str", "int": "int", "bool": "bool"}
    cs = []
    for nm in names:
        if k in prim:
            cs.append(z3.BoolVal(nm == prim[k] or (nm == "int" and k == "bool") or nm == "object"))
        elif k == "none":
            cs.append(z3.BoolVal(nm == "object"))
        elif k in ("list", "set", "dict", "tuple"):
            cs.append(z3.BoolVal(nm == k or nm == "object"))
        elif k == "exc":
            r = engine.is_exc_subclass(x.t.cls, nm)
            cs.append(z3.BoolVal(bool(r)))
        elif k == "v":
            v = x.t
            if nm == "str":
                cs.append(V.is_str_(v))
            elif nm == "int":
                cs.append(Or(V.is_int(v), V.is_bool_(v)))
            elif nm == "bool":
                cs.append(V.is_bool_(v))
            elif nm in ("list", "set", "dict", "tuple"):
                bk = {"list": S.BK_LIST, "set": S.BK_SET, "dict": S.BK_DICT, "tuple": S.BK_TUPLE}[nm]
                cs.append(Or(And(V.is_box(v), S.box_kind(V.bid(v)) == bk), V.is_pair(v) if nm == "tuple" else z3.BoolVal(False)))
            elif nm == "object":
                cs.append(z3.BoolVal(True))
            else:
                inner = strip_opt(x.ty)
                static = None
                if isinstance(inner, TObj) and inner.cls in engine.repo.classes and nm in engine.repo.classes and not isinstance(x.ty, TOpt):
                    if engine.repo.is_subclass(engine.repo.classes[inner.cls], nm):
                        static = True
                if static:
                    cs.append(z3.BoolVal(True))
                else:
                    cs.append(And(V.is_obj(v), engine.instance_of(v, nm)))
        else:
            cs.append(z3.BoolVal(False))
    return Or(*cs)


def b_isinstance(engine, st, args, kwargs, node):
    x, c = args
    yield st, sv_bool(isinstance_term(engine, x, _class_names(engine, c)))


def b_issubclass(engine, st, args, kwargs, node):
    """issubclass(c, base): decided for two concrete classes of the package / exception table, otherwise an arbitrary
    Boolean (a class VALUE such as __exit__'s exc_type is any class)"""
    c, base = args
    names = _class_names(engine, base) if base.kind in ("class", "tuple") else None
    if c.kind == "class" and names is not None:
        cur, seen = c.t, set()
        ok = False
        while cur is not None and cur not in seen:
            seen.add(cur)
            if cur in names:
                ok = True
                break
            ci = engine.repo.classes.get(cur)
            cur = engine.exc_parent.get(cur) or (ci.bases[0] if ci is not None and getattr(ci, "bases", None) else None)
        yield st, sv_bool(ok)
        return
    yield st, sv_bool(S.fresh("issubclass", S.Bool))


def b_getattr(engine, st, args, kwargs, node):
    o, name = args[0], args[1]
    nm = z3.simplify(engine.as_str(name))
    if not z3.is_string_value(nm):
        raise OutsideSubset("getattr with a symbolic name")
    attr = nm.as_string()
    if o.kind == "namespace":
        # argparse.Namespace built from a dict: attribute == key
        yield from engine.ns_getattr(engine, st, o, attr, args[2] if len(args) > 2 else None)
        return
    results = list(load_attr(engine, st, o, attr, node))
    for st1, r in results:
        if isinstance(r, Raised) and r.cls == "AttributeError" and len(args) > 2:
            yield st1, args[2]
        else:
            yield st1, r


def b_hasattr(engine, st, args, kwargs, node):
    o, name = args
    nm = z3.simplify(engine.as_str(name))
    if not z3.is_string_value(nm):
        raise OutsideSubset("hasattr with a symbolic name")
    attr = nm.as_string()
    if o.kind == "v":
        inner = strip_opt(o.ty)
        names = []
        if isinstance(inner, TObj):
            names = [inner.cls]
        elif isinstance(inner, TUnion):
            names = [i.cls for i in inner.items if isinstance(i, TObj)]
        if names and all(n in engine.repo.classes for n in names):
            conds = []
            for nme in names:
                # dynamic: any subclass known to the repo may be the run-time class
                for sub in engine.repo.subclasses(nme) or [engine.repo.classes[nme]]:
                    has = attr in engine.repo.all_fields(sub) or engine.repo.find_method(sub, attr) is not None or engine.repo.find_class_attr(sub, attr) is not None
                    if has:
                        conds.append(S.cls_of(V.oid(o.t)) == class_id(sub.name))
            yield st, sv_bool(And(V.is_obj(o.t), Or(*conds)))
            return
        if inner == TStr or o.kind == "str":
            yield st, sv_bool(("str", attr) in engine.method_models)
            return
        raise OutsideSubset(f"hasattr on {o.ty}")
    if o.kind == "str":
        yield st, sv_bool(("str", attr) in engine.method_models)
        return
    raise OutsideSubset(f"hasattr on {o.kind}")


def b_sorted(engine, st, args, kwargs, node):
    x = args[0]
    key = kwargs.get("key")
    for st1, s in to_set_or_list(engine, st, x):
        if isinstance(s, Raised):
            yield st1, s
            continue
        # key map as an array: Lambda v. box(key(v))
        v = S.fresh("k", V)
        elem = s.ty.elem if isinstance(s.ty, (TSet, TList)) else TAny
        if key is None:
            keymap = z3.Lambda([v], v)
            st2 = st1
        else:
            st2, u = engine.unboxed(st1, v, elem)
            res = list(engine.call_value(st2, key, [u], {}, node))
            kv, rc, st2 = engine.merge_results(res, st2)
            if kv is None:
                raise OutsideSubset("sort key always raises")
            st2, kb = engine.boxed(st2, kv)
            keymap = z3.Lambda([v], kb)
        if s.kind == "set":
            n = S.fresh("n", S.Int)
            arr = sorted_by(s.t, keymap)
            pos = lambda w: sorted_by_pos(s.t, keymap, w)
            facts = set_list_facts(s.t, n, arr, pos)
            i, j = S.fresh("si", S.Int), S.fresh("sj", S.Int)
            if key is not None and kv.kind == "str":
                # non-decreasing in the (string) key
                facts.append(z3.ForAll([i, j], z3.Implies(And(0 <= i, i < j, j < n), V.sval(keymap[arr[i]]) <= V.sval(keymap[arr[j]]))))
            res = sv_list(n, arr, elem)
            res.origin = ("set", s.t)
            yield st2.with_facts(facts), res
        else:
            ln, arr0 = s.t
            f = z3.Function("sorted_list", S.Int, S.SeqS, S.MapS, S.SeqS)
            yield st2, sv_list(ln, f(ln, arr0, keymap), elem)


def to_set_or_list(engine, st, x):
    if x.kind in ("set",):
        yield st, x
    elif x.kind in ("dict",):
        yield st, sv_set(x.t[0], x.ty.k if isinstance(x.ty, TDict) else TAny)
    elif x.kind == "view" and "as_set" in x.t:
        yield from x.t["as_set"](engine, st)
    elif x.kind == "v" and isinstance(strip_opt(x.ty), TSet):
        st1, u = engine.unboxed(st, x.t, strip_opt(x.ty))
        yield st1, u
    else:
        yield from to_list(engine, st, x)


def b_list(engine, st, args, kwargs, node):
    if not args:
        yield st, sv_list(z3.IntVal(0), S.NONE_SEQ, TAny)
        return
    yield from to_list(engine, st, args[0])


def b_set(engine, st, args, kwargs, node):
    if not args:
        yield st, sv_set(S.EMPTY_SET, TAny)
        return
    yield from to_set(engine, st, args[0])


def b_dict(engine, st, args, kwargs, node):
    if not args and not kwargs:
        yield st, sv_dict(S.EMPTY_SET, S.NONE_MAP)
        return
    if len(args) == 1 and not kwargs:
        x = args[0]
        if x.kind == "v" and isinstance(strip_opt(x.ty), TDict) and not isinstance(x.ty, TOpt):
            st, x = engine.unboxed(st, x.t, strip_opt(x.ty))
        if x.kind == "dict":
            yield st, SV("dict", x.t, x.ty)  # a copy (value semantics: the same value, no alias)
            return
    raise OutsideSubset("dict(...) with arguments")


def b_tuple(engine, st, args, kwargs, node):
    if not args:
        yield st, sv_tuple([])
        return
    x = args[0]
    if x.kind == "tuple":
        yield st, x
        return
    for st1, l in to_list(engine, st, x):
        if isinstance(l, Raised):
            yield st1, l
            continue
        ln, arr = l.t
        b = S.inj_tuple(ln, arr)
        st2 = st1.with_facts([S.unb_list_len(b) == ln, S.unb_list_arr(b) == arr, S.box_kind(b) == S.BK_TUPLE])
        yield st2, sv_v(V.box(b), TTupleVar(l.ty.elem if isinstance(l.ty, TList) else TAny))


def b_iter(engine, st, args, kwargs, node):
    yield st, SV("iter", args[0])


def b_next(engine, st, args, kwargs, node):
    it = args[0]
    if it.kind == "iter":
        src = it.t
        if src.kind == "v" and isinstance(strip_opt(src.ty), (TSet, TList)):
            st, src = engine.unboxed(st, src.t, strip_opt(src.ty))
        if src.kind == "set":
            w = S.fresh("pick", V)
            for st1, ne in engine.fork(st, z3.Exists([w], src.t[w])):
                if ne:
                    p = z3.Function("first_of", S.SetS, V)(src.t)
                    st2 = st1.with_facts([src.t[p]])
                    st3, u = engine.unboxed(st2, p, src.ty.elem if isinstance(src.ty, TSet) else TAny)
                    yield st3, u
                elif len(args) > 1:
                    yield st1, args[1]
                else:
                    yield st1, Raised("StopIteration", where="next(iter(set))")
            return
        if src.kind == "list":
            for st1, ne in engine.fork(st, src.t[0] > 0):
                if ne:
                    st2, u = engine.unboxed(st1, src.t[1][0], src.ty.elem if isinstance(src.ty, TList) else TAny)
                    yield st2, u
                elif len(args) > 1:
                    yield st1, args[1]
                else:
                    yield st1, Raised("StopIteration", where="next(iter(list))")
            return
    if it.kind in ("genexp", "view", "v"):
        for st1, l in to_list(engine, st, it):
            if isinstance(l, Raised):
                yield st1, l
            else:
                yield from b_next(engine, st1, [SV("iter", l)] + list(args[1:]), kwargs, node)
        return
    raise OutsideSubset(f"next() on {it.kind}")


def b_any_all(is_any):
    def f(engine, st, args, kwargs, node):
        x = args[0]
        if x.kind == "genexp":
            from .loops import genexp_quant

            yield from genexp_quant(engine, st, x, is_any)
            return
        if x.kind == "tuple" or x.kind == "list" and z3.is_int_value(z3.simplify(x.t[0])):
            items = x.t if x.kind == "tuple" else None
            if items is None:
                n = z3.simplify(x.t[0]).as_long()
                items = []
                for i in range(n):
                    st, u = engine.unboxed(st, x.t[1][i], x.ty.elem if isinstance(x.ty, TList) else TAny)
                    items.append(u)
            cs = []
            for it in items:
                res = list(engine.truthy(st, it))
                if len(res) != 1 or isinstance(res[0][1], Raised):
                    raise OutsideSubset("any/all over elements with side-effecting truthiness")
                st, c = res[0]
                cs.append(c)
            yield st, sv_bool(Or(*cs) if is_any else And(*cs))
            return
        raise OutsideSubset(f"any/all over {x.kind}")

    return f


def b_enumerate(engine, st, args, kwargs, node):
    yield st, SV("view", {"name": "enumerate", "src": args[0], "start": args[1] if len(args) > 1 else kwargs.get("start")})


def b_range(engine, st, args, kwargs, node):
    a = [engine.as_int(x) for x in args]
    if len(a) == 1:
        lo, hi, step = z3.IntVal(0), a[0], z3.IntVal(1)
    elif len(a) == 2:
        lo, hi, step = a[0], a[1], z3.IntVal(1)
    else:
        lo, hi, step = a
    yield st, SV("view", {"name": "range", "lo": lo, "hi": hi, "step": step})


def b_reversed(engine, st, args, kwargs, node):
    for st1, l in to_list(engine, st, args[0]):
        if isinstance(l, Raised):
            yield st1, l
            continue
        ln, arr = l.t
        i = S.fresh("i", S.Int)
        yield st1, SV("list", (ln, z3.Lambda([i], arr[ln - 1 - i])), l.ty)


def b_type(engine, st, args, kwargs, node):
    (x,) = args
    if x.kind == "v":
        yield st, SV("dynclass", x)
    elif x.kind in ("int", "str", "bool", "list", "set", "dict", "tuple"):
        yield st, SV("class", x.kind)
    else:
        raise OutsideSubset(f"type() of {x.kind}")


def b_print(engine, st, args, kwargs, node):
    engine.dropped.add("print")
    yield st, SV_NONE


def b_hash(engine, st, args, kwargs, node):
    (x,) = args
    if x.kind == "v" and isinstance(strip_opt(x.ty), TObj) and not isinstance(x.ty, TOpt):
        ci = engine.repo.classes.get(strip_opt(x.ty).cls)
        fi = ci and engine.repo.find_method(ci, "__hash__")
        if fi is not None:
            yield from engine.call_repo(fi, [x], {}, st, node)
            return
    st1, b = engine.boxed(st, x)
    yield st1, sv_int(hash_of(b))


def b_exit(engine, st, args, kwargs, node):
    yield st, Raised("SystemExit", where="exit()")


def b_super(engine, st, args, kwargs, node):
    if args:
        raise OutsideSubset("super() with arguments")
    fr = st.frame
    if fr.cls is None or "self" not in st.env and not st.env:
        raise OutsideSubset("super() outside a method")
    first = fr.func.node.args.args[0].arg
    yield st, SV("super", (st.env[first], fr.cls))


def b_min_max(is_min):
    def f(engine, st, args, kwargs, node):
        if len(args) == 2 and all(a.kind in ("int", "bool") for a in args):
            x, y = engine.as_int(args[0]), engine.as_int(args[1])
            yield st, sv_int(z3.If((x <= y) if is_min else (x >= y), x, y))
            return
        raise OutsideSubset("min/max")

    return f


def b_open(engine, st, args, kwargs, node):
    from .ext_model import open_model

    yield from open_model(engine, st, args, kwargs, node)


BUILTINS = {
    "len": b_len,
    "str": b_str,
    "repr": b_repr,
    "bool": b_bool,
    "int": b_int,
    "isinstance": b_isinstance,
    "issubclass": b_issubclass,
    "getattr": b_getattr,
    "hasattr": b_hasattr,
    "sorted": b_sorted,
    "list": b_list,
    "set": b_set,
    "dict": b_dict,
    "tuple": b_tuple,
    "iter": b_iter,
    "next": b_next,
    "any": b_any_all(True),
    "all": b_any_all(False),
    "enumerate": b_enumerate,
    "range": b_range,
    "reversed": b_reversed,
    "type": b_type,
    "print": b_print,
    "hash": b_hash,
    "exit": b_exit,
    "super": b_super,
    "min": b_min_max(True),
    "max": b_min_max(False),
    "open": b_open,
}


# ------------------------------------------------------------------------------------------------
# methods of built-in types: fn(engine, st, recv, args, kwargs, recv_node) -> generator (state, SV | Raised)
# mutating methods write the new container value back through recv_node
# ------------------------------------------------------------------------------------------------
def _mut(engine, st, recv, recv_node, new, result=SV_NONE):
    if recv_node is None:
        raise OutsideSubset("mutating method on a temporary")
    new.origin = None
    for st1, e in engine.write_back(recv_node, recv, new, st):
        yield (st1, e) if isinstance(e, Raised) else (st1, result)


def m_dict_get(engine, st, recv, args, kwargs, recv_node):
    dom, mp = recv.t
    vt = recv.ty.v if isinstance(recv.ty, TDict) else TAny
    st, bk = engine.boxed(st, args[0])
    dflt = args[1] if len(args) > 1 else kwargs.get("default", SV_NONE)
    for st1, has in engine.fork(st, dom[bk]):
        if has:
            st2, u = engine.unboxed(st1, mp[bk], vt)
            yield st2, u
        else:
            yield st1, dflt


def m_dict_pop(engine, st, recv, args, kwargs, recv_node):
    dom, mp = recv.t
    vt = recv.ty.v if isinstance(recv.ty, TDict) else TAny
    st, bk = engine.boxed(st, args[0])
    for st1, has in engine.fork(st, dom[bk]):
        if has:
            st2, u = engine.unboxed(st1, mp[bk], vt)
            new = SV("dict", (z3.Store(dom, bk, z3.BoolVal(False)), mp), recv.ty)
            yield from _mut(engine, st2, recv, recv_node, new, u)
        elif len(args) > 1:
            yield st1, args[1]
        else:
            yield st1, Raised("KeyError", where="dict.pop")


def m_dict_keys(engine, st, recv, args, kwargs, recv_node):
    yield st, sv_set(recv.t[0], recv.ty.k if isinstance(recv.ty, TDict) else TAny)


def m_dict_values(engine, st, recv, args, kwargs, recv_node):
    dom, mp = recv.t
    yield st, SV("view", {"name": "dict_values", "dom": dom, "map": mp, "ty": recv.ty, "as_set": lambda e, s: _dict_values_set(e, s, recv)})


def _dict_values_set(engine, st, recv):
    dom, mp = recv.t
    y, k = S.fresh("y", V), S.fresh("k", V)
    yield st, sv_set(z3.Lambda([y], z3.Exists([k], And(dom[k], mp[k] == y))), recv.ty.v if isinstance(recv.ty, TDict) else TAny)


def m_dict_items(engine, st, recv, args, kwargs, recv_node):
    yield st, SV("view", {"name": "dict_items", "dict": recv})


def m_dict_clear(engine, st, recv, args, kwargs, recv_node):
    yield from _mut(engine, st, recv, recv_node, SV("dict", (S.EMPTY_SET, S.NONE_MAP), recv.ty))


def m_dict_update(engine, st, recv, args, kwargs, recv_node):
    (o,) = args
    if o.kind != "dict":
        raise OutsideSubset("dict.update with non-dict")
    x = S.fresh("x", V)
    new = SV("dict", (z3.Lambda([x], Or(recv.t[0][x], o.t[0][x])), z3.Lambda([x], z3.If(o.t[0][x], o.t[1][x], recv.t[1][x]))), recv.ty)
    yield from _mut(engine, st, recv, recv_node, new)


def m_dict_setdefault(engine, st, recv, args, kwargs, recv_node):
    dom, mp = recv.t
    vt = recv.ty.v if isinstance(recv.ty, TDict) else TAny
    st, bk = engine.boxed(st, args[0])
    dflt = args[1] if len(args) > 1 else SV_NONE
    for st1, has in engine.fork(st, dom[bk]):
        if has:
            st2, u = engine.unboxed(st1, mp[bk], vt)
            if u.kind in ("list", "set", "dict"):
                raise OutsideSubset("setdefault returning an existing container that may then be mutated in place (aliasing)")
            yield st2, u
        else:
            st2, bv = engine.boxed(st1, dflt)
            new = SV("dict", (z3.Store(dom, bk, z3.BoolVal(True)), z3.Store(mp, bk, bv)), recv.ty)
            yield from _mut(engine, st2, recv, recv_node, new, dflt)


def m_dict_copy(engine, st, recv, args, kwargs, recv_node):
    yield st, SV("dict", recv.t, recv.ty)


def m_set_copy(engine, st, recv, args, kwargs, recv_node):
    yield st, SV("set", recv.t, recv.ty)


def _set_pred(fn):
    def m(engine, st, recv, args, kwargs, recv_node):
        for st1, s in to_set(engine, st, args[0]):
            if isinstance(s, Raised):
                yield st1, s
            else:
                x = S.fresh("x", V)
                yield st1, sv_bool(z3.ForAll([x], fn(recv.t[x], s.t[x])))

    return m


def m_list_insert(engine, st, recv, args, kwargs, recv_node):
    ln, arr = recv.t
    i0 = engine.as_int(args[0])
    i0 = z3.If(i0 < 0, z3.If(i0 + ln < 0, 0, i0 + ln), z3.If(i0 > ln, ln, i0))
    st, b = engine.boxed(st, args[1])
    i = S.fresh("i", S.Int)
    new = SV("list", (ln + 1, z3.Lambda([i], z3.If(i < i0, arr[i], z3.If(i == i0, b, arr[i - 1])))), recv.ty)
    yield from _mut(engine, st, recv, recv_node, new)


def m_list_remove(engine, st, recv, args, kwargs, recv_node):
    ln, arr = recv.t
    st, b = engine.boxed(st, args[0])
    j = S.fresh("j", S.Int)
    i = S.fresh("i", S.Int)
    first = z3.Function(S.fresh_name("first_idx"), S.Int)
    for st1, has in engine.fork(st, z3.Exists([j], And(0 <= j, j < ln, arr[j] == b))):
        if has:
            k = S.fresh("k", S.Int)
            st2 = st1.with_facts([0 <= k, k < ln, arr[k] == b, z3.ForAll([j], z3.Implies(And(0 <= j, j < k), arr[j] != b))])
            new = SV("list", (ln - 1, z3.Lambda([i], z3.If(i < k, arr[i], arr[i + 1]))), recv.ty)
            yield from _mut(engine, st2, recv, recv_node, new)
        else:
            yield st1, Raised("ValueError", where="list.remove")


def m_list_index(engine, st, recv, args, kwargs, recv_node):
    ln, arr = recv.t
    st, b = engine.boxed(st, args[0])
    if recv.origin is not None and recv.origin[0] == "set":
        # an enumeration of a set: the index of a member is its position (the enumeration's inverse)
        sset = recv.origin[1]
        if z3.is_app(arr) and arr.num_args() >= 1 and arr.decl().name() in ("any_order", "sorted_by"):
            pos = any_order_pos(sset, b) if arr.decl().name() == "any_order" else sorted_by_pos(sset, arr.arg(1), b)
            for st1, has in engine.fork(st, sset[b]):
                if has:
                    yield st1.with_facts([0 <= pos, pos < ln, arr[pos] == b]), sv_int(pos)
                else:
                    yield st1, Raised("ValueError", where="list.index")
            return
    j = S.fresh("j", S.Int)
    for st1, has in engine.fork(st, z3.Exists([j], And(0 <= j, j < ln, arr[j] == b))):
        if has:
            k = S.fresh("k", S.Int)
            yield st1.with_facts([0 <= k, k < ln, arr[k] == b, z3.ForAll([j], z3.Implies(And(0 <= j, j < k), arr[j] != b))]), sv_int(k)
        else:
            yield st1, Raised("ValueError", where="list.index")


def m_list_sort(engine, st, recv, args, kwargs, recv_node):
    for st1, l in b_sorted(engine, st, [recv], kwargs, None):
        if isinstance(l, Raised):
            yield st1, l
        else:
            yield from _mut(engine, st1, recv, recv_node, SV("list", l.t, recv.ty))


def m_list_reverse(engine, st, recv, args, kwargs, recv_node):
    ln, arr = recv.t
    i = S.fresh("i", S.Int)
    yield from _mut(engine, st, recv, recv_node, SV("list", (ln, z3.Lambda([i], arr[ln - 1 - i])), recv.ty))


def m_list_clear(engine, st, recv, args, kwargs, recv_node):
    yield from _mut(engine, st, recv, recv_node, SV("list", (z3.IntVal(0), S.NONE_SEQ), recv.ty))


def _str_uf(name, nargs=0, ret=None):
    def m(engine, st, recv, args, kwargs, recv_node):
        a = [engine.as_str(x) if x.kind in ("str",) or (x.kind == "v") else None for x in args[:nargs]]
        if any(x is None for x in a):
            raise OutsideSubset(f"str.{name} argument form")
        rs = S.Str if ret is None else ret
        f = z3.Function("py_" + name, *([S.Str] * (1 + len(a)) + [rs]))
        r = f(recv.t, *a)
        yield st, (sv_str(r) if ret is None else (sv_bool(r) if rs.eq(S.Bool) else sv_int(r)))

    return m


def m_str_removeprefix(engine, st, recv, args, kwargs, recv_node):
    p = engine.as_str(args[0])
    yield st, sv_str(z3.If(z3.PrefixOf(p, recv.t), z3.SubString(recv.t, z3.Length(p), z3.Length(recv.t) - z3.Length(p)), recv.t))


def m_str_removesuffix(engine, st, recv, args, kwargs, recv_node):
    p = engine.as_str(args[0])
    yield st, sv_str(z3.If(And(z3.SuffixOf(p, recv.t), z3.Length(p) > 0), z3.SubString(recv.t, 0, z3.Length(recv.t) - z3.Length(p)), recv.t))


def m_str_partition(engine, st, recv, args, kwargs, recv_node):
    sep = engine.as_str(args[0])
    s_ = recv.t
    idx = z3.IndexOf(s_, sep, 0)
    found = z3.Contains(s_, sep)
    head = z3.If(found, z3.SubString(s_, 0, idx), s_)
    mid = z3.If(found, sep, z3.StringVal(""))
    tail = z3.If(found, z3.SubString(s_, idx + z3.Length(sep), z3.Length(s_) - idx - z3.Length(sep)), z3.StringVal(""))
    yield st, sv_tuple([sv_str(head), sv_str(mid), sv_str(tail)])


def m_str_rpartition(engine, st, recv, args, kwargs, recv_node):
    sep = engine.as_str(args[0])
    s_ = recv.t
    idx = z3.LastIndexOf(s_, sep)
    found = z3.Contains(s_, sep)
    head = z3.If(found, z3.SubString(s_, 0, idx), z3.StringVal(""))
    mid = z3.If(found, sep, z3.StringVal(""))
    tail = z3.If(found, z3.SubString(s_, idx + z3.Length(sep), z3.Length(s_) - idx - z3.Length(sep)), s_)
    yield st, sv_tuple([sv_str(head), sv_str(mid), sv_str(tail)])


def m_str_find(engine, st, recv, args, kwargs, recv_node):
    yield st, sv_int(z3.IndexOf(recv.t, engine.as_str(args[0]), 0))


def m_str_rfind(engine, st, recv, args, kwargs, recv_node):
    yield st, sv_int(z3.LastIndexOf(recv.t, engine.as_str(args[0])))


def m_str_lstrip(engine, st, recv, args, kwargs, recv_node):
    f = z3.Function("py_lstrip", S.Str, S.Str, S.Str)
    yield st, sv_str(f(recv.t, engine.as_str(args[0]) if args and args[0].kind != "none" else z3.StringVal(" \t\n\r\x0b\x0c")))


def m_str_rstrip(engine, st, recv, args, kwargs, recv_node):
    f = z3.Function("py_rstrip", S.Str, S.Str, S.Str)
    yield st, sv_str(f(recv.t, engine.as_str(args[0]) if args and args[0].kind != "none" else z3.StringVal(" \t\n\r\x0b\x0c")))


def m_str_format(engine, st, recv, args, kwargs, recv_node):
    f = Facts()
    bs = [box(a, f) for a in args] + [box(v, f) for k, v in sorted(kwargs.items()) if k != "**"]
    acc = V.none
    for b in reversed(bs):
        acc = V.pair(b, acc)
    yield st.with_facts(f), sv_str(z3.Function("str_format", S.Str, V, S.Str)(recv.t, acc))


def m_set_add(engine, st, recv, args, kwargs, recv_node):
    st, b = engine.boxed(st, args[0])
    yield from _mut(engine, st, recv, recv_node, SV("set", z3.Store(recv.t, b, z3.BoolVal(True)), recv.ty))


def m_set_remove(engine, st, recv, args, kwargs, recv_node):
    st, b = engine.boxed(st, args[0])
    for st1, has in engine.fork(st, recv.t[b]):
        if has:
            yield from _mut(engine, st1, recv, recv_node, SV("set", z3.Store(recv.t, b, z3.BoolVal(False)), recv.ty))
        else:
            yield st1, Raised("KeyError", where="set.remove")


def m_set_discard(engine, st, recv, args, kwargs, recv_node):
    st, b = engine.boxed(st, args[0])
    yield from _mut(engine, st, recv, recv_node, SV("set", z3.Store(recv.t, b, z3.BoolVal(False)), recv.ty))


def m_set_clear(engine, st, recv, args, kwargs, recv_node):
    yield from _mut(engine, st, recv, recv_node, SV("set", S.EMPTY_SET, recv.ty))


def _set_binop(fn):
    def m(engine, st, recv, args, kwargs, recv_node):
        acc = recv.t
        for a in args:
            done = False
            for st1, s in to_set(engine, st, a):
                if isinstance(s, Raised):
                    yield st1, s
                    return
                st = st1
                x = S.fresh("x", V)
                acc = z3.Lambda([x], fn(acc[x], s.t[x]))
                done = True
                break
            if not done:
                return
        yield st, SV("set", acc, recv.ty)

    return m


def m_set_update(engine, st, recv, args, kwargs, recv_node):
    for st1, r in _set_binop(lambda a, b: Or(a, b))(engine, st, recv, args, kwargs, recv_node):
        if isinstance(r, Raised):
            yield st1, r
        else:
            yield from _mut(engine, st1, recv, recv_node, r)


def m_set_pop(engine, st, recv, args, kwargs, recv_node):
    w = S.fresh("w", V)
    for st1, ne in engine.fork(st, z3.Exists([w], recv.t[w])):
        if ne:
            p = z3.Function("first_of", S.SetS, V)(recv.t)
            st2 = st1.with_facts([recv.t[p]])
            st3, u = engine.unboxed(st2, p, recv.ty.elem if isinstance(recv.ty, TSet) else TAny)
            yield from _mut(engine, st3, recv, recv_node, SV("set", z3.Store(recv.t, p, z3.BoolVal(False)), recv.ty), u)
        else:
            yield st1, Raised("KeyError", where="set.pop")


def m_list_append(engine, st, recv, args, kwargs, recv_node):
    ln, arr = recv.t
    st, b = engine.boxed(st, args[0])
    ty = recv.ty
    if isinstance(ty, TList) and ty.elem == TAny and args[0].ty != TAny and z3.is_int_value(z3.simplify(ln)) and z3.simplify(ln).as_long() == 0:
        ty = TList(args[0].ty)
    yield from _mut(engine, st, recv, recv_node, SV("list", (z3.simplify(ln + 1), z3.Store(arr, ln, b)), ty))


def m_list_extend(engine, st, recv, args, kwargs, recv_node):
    for st1, l in to_list(engine, st, args[0]):
        if isinstance(l, Raised):
            yield st1, l
        else:
            yield from _mut(engine, st1, recv, recv_node, list_concat(recv, l))


def m_list_pop(engine, st, recv, args, kwargs, recv_node):
    ln, arr = recv.t
    elem = recv.ty.elem if isinstance(recv.ty, TList) else TAny
    if args:
        raise OutsideSubset("list.pop(i)")
    for st1, ne in engine.fork(st, ln > 0):
        if ne:
            st2, u = engine.unboxed(st1, arr[ln - 1], elem)
            yield from _mut(engine, st2, recv, recv_node, SV("list", (ln - 1, arr), recv.ty), u)
        else:
            yield st1, Raised("IndexError", where="pop from empty list")


def m_list_copy(engine, st, recv, args, kwargs, recv_node):
    yield st, SV("list", recv.t, recv.ty)


def m_str_lower(engine, st, recv, args, kwargs, recv_node):
    yield st, sv_str(py_lower(recv.t))


def m_str_upper(engine, st, recv, args, kwargs, recv_node):
    yield st, sv_str(py_upper(recv.t))


def m_str_strip(engine, st, recv, args, kwargs, recv_node):
    if args and args[0].kind != "none":
        c = engine.as_str(args[0])
        r = py_strip(recv.t, c)
        dd = z3.StringVal("..")
        # S1 (assumed, bounded-validated): the result is a substring; a one-character c is neither prefix nor suffix of it
        facts = [z3.Implies(z3.Contains(r, dd), z3.Contains(recv.t, dd)), z3.Length(r) <= z3.Length(recv.t)]
        cl = z3.simplify(c)
        if z3.is_string_value(cl) and len(cl.as_string()) == 1:
            facts += [Not(z3.PrefixOf(c, r)), Not(z3.SuffixOf(c, r))]
        yield st.with_facts(facts), sv_str(r)
    else:
        yield st, sv_str(py_strip_ws(recv.t))


def m_str_startswith(engine, st, recv, args, kwargs, recv_node):
    yield st, sv_bool(z3.PrefixOf(engine.as_str(args[0]), recv.t))


def m_str_endswith(engine, st, recv, args, kwargs, recv_node):
    yield st, sv_bool(z3.SuffixOf(engine.as_str(args[0]), recv.t))


def m_str_isnumeric(engine, st, recv, args, kwargs, recv_node):
    yield st, sv_bool(py_isnumeric(recv.t))


def m_str_replace(engine, st, recv, args, kwargs, recv_node):
    yield st, sv_str(py_replace(recv.t, engine.as_str(args[0]), engine.as_str(args[1])))


def m_str_encode(engine, st, recv, args, kwargs, recv_node):
    yield st, sv_v(z3.Function("encode_utf8", S.Str, V)(recv.t), TAny)


def m_str_join(engine, st, recv, args, kwargs, recv_node):
    for st1, l in to_list(engine, st, args[0]):
        if isinstance(l, Raised):
            yield st1, l
            continue
        ln, arr = l.t
        n = z3.simplify(ln)
        if z3.is_int_value(n) and n.as_long() <= 8:
            parts = []
            for i in range(n.as_long()):
                if i:
                    parts.append(recv.t)
                parts.append(V.sval(arr[i]))
            if not parts:
                yield st1, sv_str("")
            elif len(parts) == 1:
                yield st1, sv_str(parts[0])
            else:
                yield st1, sv_str(z3.Concat(*parts))
        else:
            yield st1, sv_str(z3.Function("str_join", S.Str, S.Int, S.SeqS, S.Str)(recv.t, ln, arr))


def m_str_rsplit(engine, st, recv, args, kwargs, recv_node):
    """only s.rsplit(sep, 1) with a one-character literal separator is modelled exactly"""
    sep = z3.simplify(engine.as_str(args[0])) if args else None
    mx = z3.simplify(engine.as_int(args[1])) if len(args) > 1 else None
    if sep is None or not z3.is_string_value(sep) or len(sep.as_string()) != 1 or mx is None or not z3.is_int_value(mx) or mx.as_long() != 1:
        raise OutsideSubset("rsplit form")
    s = recv.t
    for st1, has in engine.fork(st, z3.Contains(s, sep)):
        if has:
            idx = z3.LastIndexOf(s, sep)
            head = z3.SubString(s, 0, idx)
            tail = z3.SubString(s, idx + 1, z3.Length(s) - idx - 1)
            st2 = st1.with_facts([idx >= 0, idx < z3.Length(s), Not(z3.Contains(tail, sep)), s == z3.Concat(head, sep, tail)])
            yield st2, sv_tuple([sv_str(head), sv_str(tail)])
        else:
            yield st1, sv_tuple([sv_str(s)])


def m_str_split(engine, st, recv, args, kwargs, recv_node):
    """s.split(sep): the result is an opaque list of strings of length count(sep)+1"""
    sep = engine.as_str(args[0]) if args else None
    if sep is None:
        raise OutsideSubset("split() without separator")
    cnt = z3.Function("str_count", S.Str, S.Str, S.Int)
    parts = z3.Function("str_split", S.Str, S.Str, S.SeqS)
    n = cnt(recv.t, sep) + 1
    facts = [cnt(recv.t, sep) >= 0, (cnt(recv.t, sep) == 0) == Not(z3.Contains(recv.t, sep))]
    yield st.with_facts(facts), sv_list(n, parts(recv.t, sep), TStr)


def m_file_read(engine, st, recv, args, kwargs, recv_node):
    yield st, recv.t["content"]


METHODS = {
    ("dict", "get"): m_dict_get,
    ("dict", "pop"): m_dict_pop,
    ("dict", "keys"): m_dict_keys,
    ("dict", "values"): m_dict_values,
    ("dict", "items"): m_dict_items,
    ("dict", "clear"): m_dict_clear,
    ("dict", "update"): m_dict_update,
    ("dict", "setdefault"): m_dict_setdefault,
    ("dict", "copy"): m_dict_copy,
    ("set", "copy"): m_set_copy,
    ("set", "issubset"): _set_pred(lambda a, b: z3.Implies(a, b)),
    ("set", "issuperset"): _set_pred(lambda a, b: z3.Implies(b, a)),
    ("set", "isdisjoint"): _set_pred(lambda a, b: Not(And(a, b))),
    ("set", "symmetric_difference"): _set_binop(lambda a, b: z3.Xor(a, b)),
    ("list", "insert"): m_list_insert,
    ("list", "remove"): m_list_remove,
    ("list", "index"): m_list_index,
    ("list", "sort"): m_list_sort,
    ("list", "reverse"): m_list_reverse,
    ("list", "clear"): m_list_clear,
    ("str", "removeprefix"): m_str_removeprefix,
    ("str", "removesuffix"): m_str_removesuffix,
    ("str", "find"): m_str_find,
    ("str", "partition"): m_str_partition,
    ("str", "rpartition"): m_str_rpartition,
    ("str", "rfind"): m_str_rfind,
    ("str", "lstrip"): m_str_lstrip,
    ("str", "rstrip"): m_str_rstrip,
    ("str", "format"): m_str_format,
    ("str", "title"): _str_uf("title"),
    ("str", "capitalize"): _str_uf("capitalize"),
    ("str", "casefold"): _str_uf("casefold"),
    ("str", "swapcase"): _str_uf("swapcase"),
    ("str", "isdigit"): _str_uf("isdigit", 0, S.Bool),
    ("str", "isalpha"): _str_uf("isalpha", 0, S.Bool),
    ("str", "isalnum"): _str_uf("isalnum", 0, S.Bool),
    ("str", "isupper"): _str_uf("isupper", 0, S.Bool),
    ("str", "islower"): _str_uf("islower", 0, S.Bool),
    ("str", "isspace"): _str_uf("isspace", 0, S.Bool),
    ("str", "isidentifier"): _str_uf("isidentifier", 0, S.Bool),
    ("str", "count"): _str_uf("count", 1, S.Int),
    ("str", "zfill"): _str_uf("zfill0"),
    ("set", "add"): m_set_add,
    ("set", "remove"): m_set_remove,
    ("set", "discard"): m_set_discard,
    ("set", "clear"): m_set_clear,
    ("set", "pop"): m_set_pop,
    ("set", "update"): m_set_update,
    ("set", "difference"): _set_binop(lambda a, b: And(a, Not(b))),
    ("set", "intersection"): _set_binop(lambda a, b: And(a, b)),
    ("set", "union"): _set_binop(lambda a, b: Or(a, b)),
    ("list", "append"): m_list_append,
    ("list", "extend"): m_list_extend,
    ("list", "pop"): m_list_pop,
    ("list", "copy"): m_list_copy,
    ("str", "lower"): m_str_lower,
    ("str", "upper"): m_str_upper,
    ("str", "strip"): m_str_strip,
    ("str", "startswith"): m_str_startswith,
    ("str", "endswith"): m_str_endswith,
    ("str", "isnumeric"): m_str_isnumeric,
    ("str", "replace"): m_str_replace,
    ("str", "encode"): m_str_encode,
    ("str", "join"): m_str_join,
    ("str", "rsplit"): m_str_rsplit,
    ("str", "split"): m_str_split,
    ("file", "read"): m_file_read,
}
