"""Static types and symbolic values of the executor."""
import ast

import z3

from . import sorts as S
from .sorts import V


# ------------------------------------------------------------------------------------------------
# Types
# ------------------------------------------------------------------------------------------------
class Ty:
    name = "ty"

    def __repr__(self):
        return self.name

    def __eq__(self, other):
        return type(self) is type(other) and self.__dict__ == other.__dict__

    def __hash__(self):
        return hash(repr(self))


class _Prim(Ty):
    def __init__(self, name):
        self.name = name


TInt, TBool, TStr, TNone, TAny, TGraph, TFile, TBytes = (
    _Prim("int"),
    _Prim("bool"),
    _Prim("str"),
    _Prim("None"),
    _Prim("Any"),
    _Prim("DiGraph"),
    _Prim("file"),
    _Prim("bytes"),
)


class TOpt(Ty):
    def __init__(self, inner):
        self.inner = inner
        self.name = f"Optional[{inner}]"


class TList(Ty):
    def __init__(self, elem):
        self.elem = elem
        self.name = f"list[{elem}]"


class TSet(Ty):
    def __init__(self, elem):
        self.elem = elem
        self.name = f"set[{elem}]"


class TDict(Ty):
    def __init__(self, k, v):
        self.k, self.v = k, v
        self.name = f"dict[{k}, {v}]"


class TTuple(Ty):
    def __init__(self, items):
        self.items = tuple(items)
        self.name = "tuple[" + ", ".join(map(repr, items)) + "]"


class TTupleVar(Ty):
    def __init__(self, elem):
        self.elem = elem
        self.name = f"tuple[{elem}, ...]"


class TObj(Ty):
    def __init__(self, cls):
        self.cls = cls
        self.name = cls


class TUnion(Ty):
    def __init__(self, items):
        self.items = tuple(items)
        self.name = "Union[" + ", ".join(map(repr, items)) + "]"


def parse_type(s):
    """Parse a Python annotation (string or ast node) into a Ty.  Unknown names become TObj(name)."""
    if s is None:
        return TAny
    if isinstance(s, Ty):
        return s
    node = ast.parse(s, mode="eval").body if isinstance(s, str) else s
    return _pt(node)


def _pt(n):
    if isinstance(n, ast.Constant):
        if n.value is None:
            return TNone
        if isinstance(n.value, str):
            return parse_type(n.value)
        return TAny
    if isinstance(n, ast.Name):
        return {
            "int": TInt,
            "bool": TBool,
            "str": TStr,
            "None": TNone,
            "Any": TAny,
            "object": TAny,
            "DiGraph": TGraph,
            "bytes": TBytes,
            "list": TList(TAny),
            "set": TSet(TAny),
            "dict": TDict(TAny, TAny),
            "tuple": TTupleVar(TAny),
        }.get(n.id, TObj(n.id))
    if isinstance(n, ast.Attribute):
        if n.attr == "DiGraph":
            return TGraph
        return TObj(n.attr)
    if isinstance(n, ast.BinOp) and isinstance(n.op, ast.BitOr):
        return _mk_union([_pt(n.left), _pt(n.right)])
    if isinstance(n, ast.Subscript):
        base = n.value.id if isinstance(n.value, ast.Name) else getattr(n.value, "attr", "")
        args = n.slice.elts if isinstance(n.slice, ast.Tuple) else [n.slice]
        if base in ("Optional",):
            return _mk_union([_pt(args[0]), TNone])
        if base in ("Union",):
            return _mk_union([_pt(a) for a in args])
        if base in ("list", "List", "Sequence", "Iterable"):
            return TList(_pt(args[0]))
        if base in ("set", "Set", "frozenset"):
            return TSet(_pt(args[0]))
        if base in ("dict", "Dict", "Mapping"):
            return TDict(_pt(args[0]), _pt(args[1]))
        if base in ("tuple", "Tuple"):
            if len(args) == 2 and isinstance(args[1], ast.Constant) and args[1].value is Ellipsis:
                return TTupleVar(_pt(args[0]))
            return TTuple([_pt(a) for a in args])
        if base == "type":
            return TAny
        return TAny
    return TAny


def _mk_union(items):
    flat = []
    for i in items:
        if isinstance(i, TUnion):
            flat.extend(i.items)
        elif isinstance(i, TOpt):
            flat.extend([i.inner, TNone])
        else:
            flat.append(i)
    uniq = []
    for i in flat:
        if i not in uniq:
            uniq.append(i)
    non_none = [i for i in uniq if i != TNone]
    if len(non_none) < len(uniq):
        if len(non_none) == 1:
            return TOpt(non_none[0])
        return TOpt(TUnion(non_none))
    if len(uniq) == 1:
        return uniq[0]
    return TUnion(uniq)


def strip_opt(ty):
    return ty.inner if isinstance(ty, TOpt) else ty


# ------------------------------------------------------------------------------------------------
# Symbolic values
# ------------------------------------------------------------------------------------------------
class SV:
    """A symbolic value: kind + payload + static type.

    kind      payload
    int       z3 Int
    bool      z3 Bool
    str       z3 String
    none      None
    v         z3 term of sort V (static type in .ty: TAny, TOpt, TObj, TUnion, ...)
    set       z3 SetS
    list      (len Int, arr SeqS)
    dict      (dom SetS, map MapS)
    tuple     python list of SV (fixed length)
    graph     (nodes SetS, nattr Map2S, edges RelS, eattr Array(V,V,MapS))
    func      python descriptor (closure / bound method / builtin)
    class     class name (str)
    module    dotted module name (str)
    """

    __slots__ = ("kind", "t", "ty", "origin")

    def __init__(self, kind, t, ty=TAny, origin=None):
        self.kind, self.t, self.ty, self.origin = kind, t, ty, origin

    def __repr__(self):
        return f"SV<{self.kind}:{self.ty}:{self.t}>"


def sv_int(t):
    return SV("int", t if z3.is_expr(t) else z3.IntVal(t), TInt)


def sv_bool(t):
    return SV("bool", t if z3.is_expr(t) else z3.BoolVal(t), TBool)


def sv_str(t):
    return SV("str", t if z3.is_expr(t) else z3.StringVal(t), TStr)


SV_NONE = SV("none", None, TNone)


def sv_v(t, ty=TAny):
    return SV("v", t, ty)


def sv_set(t, elem=TAny):
    return SV("set", t, TSet(elem))


def sv_list(n, arr, elem=TAny):
    return SV("list", (n, arr), TList(elem))


def sv_dict(dom, mp, k=TAny, v=TAny):
    return SV("dict", (dom, mp), TDict(k, v))


def sv_tuple(items):
    return SV("tuple", list(items), TTuple([i.ty for i in items]))


def sv_graph(nodes, nattr, edges, eattr):
    return SV("graph", (nodes, nattr, edges, eattr), TGraph)


class Facts:
    """Collector of ground facts produced while (un)boxing; the caller adds them to its path condition."""

    def __init__(self):
        self.items = []

    def add(self, f):
        self.items.append(f)


def box(sv, facts):
    """SV -> z3 term of sort V."""
    k = sv.kind
    if k == "v":
        return sv.t
    if k == "int":
        return V.int(sv.t)
    if k == "bool":
        return V.bool_(sv.t)
    if k == "str":
        return V.str_(sv.t)
    if k == "none":
        return S.NONE
    if k == "tuple":
        items = [box(i, facts) for i in sv.t]
        if len(items) == 2:
            return V.pair(items[0], items[1])
        # n != 2: (n, (x1, (x2, ... none)))
        acc = S.NONE
        for it in reversed(items):
            acc = V.pair(it, acc)
        return V.pair(V.int(z3.IntVal(len(items))), acc)
    if k == "set":
        b = S.inj_set(sv.t)
        facts.add(S.unb_set(b) == sv.t)
        facts.add(S.box_kind(b) == S.BK_SET)
        return V.box(b)
    if k == "list":
        n, arr = sv.t
        b = S.inj_list(n, arr)
        facts.add(S.unb_list_len(b) == n)
        facts.add(S.unb_list_arr(b) == arr)
        facts.add(S.box_kind(b) == S.BK_LIST)
        return V.box(b)
    if k == "dict":
        dom, mp = sv.t
        b = S.inj_dict(dom, mp)
        facts.add(S.unb_dict_dom(b) == dom)
        facts.add(S.unb_dict_map(b) == mp)
        facts.add(S.box_kind(b) == S.BK_DICT)
        return V.box(b)
    if k == "graph":
        n, na, e, ea = sv.t
        b = S.inj_graph(n, na, e, ea)
        facts.add(S.unb_g_nodes(b) == n)
        facts.add(S.unb_g_nattr(b) == na)
        facts.add(S.unb_g_edges(b) == e)
        facts.add(S.unb_g_eattr(b) == ea)
        facts.add(S.box_kind(b) == S.BK_GRAPH)
        return V.box(b)
    if k == "pathobj":
        f_mk = z3.Function("mk_path", S.Str, V)
        f_str = z3.Function("path_str_of", V, S.Str)
        facts.add(f_str(f_mk(sv.t)) == sv.t)
        return f_mk(sv.t)
    if k == "class":
        # class objects as values (e.g. `cast` in parse_value): a distinguished object per class name
        return class_value(sv.t)
    raise NotImplementedError(f"box {k}")


_class_ids = {}


def class_id(name):
    if name not in _class_ids:
        _class_ids[name] = len(_class_ids) + 1
    return _class_ids[name]


def class_value(name):
    """The V term that stands for the class object `name` (negative oids are reserved for classes)."""
    return V.obj(z3.IntVal(-class_id(name)))


def unbox(v, ty, facts, assume_types=True):
    """z3 V term + static type -> SV (adds well-typedness facts when assume_types)."""
    if isinstance(ty, _Prim):
        if ty == TInt:
            if assume_types:
                facts.add(V.is_int(v))
            return sv_int(V.ival(v))
        if ty == TBool:
            if assume_types:
                facts.add(V.is_bool_(v))
            return sv_bool(V.bval(v))
        if ty == TStr:
            if assume_types:
                facts.add(V.is_str_(v))
            return sv_str(V.sval(v))
        if ty == TNone:
            return SV_NONE
        if ty == TGraph:
            b = V.bid(v)
            if assume_types:
                facts.add(V.is_box(v))
            return sv_graph(S.unb_g_nodes(b), S.unb_g_nattr(b), S.unb_g_edges(b), S.unb_g_eattr(b))
        return sv_v(v, ty)
    if isinstance(ty, TSet):
        if assume_types:
            facts.add(V.is_box(v))
            facts.add(S.inj_set(S.unb_set(V.bid(v))) == V.bid(v))
        return sv_set(S.unb_set(V.bid(v)), ty.elem)
    if isinstance(ty, TList):
        b = V.bid(v)
        if assume_types:
            facts.add(V.is_box(v))
            facts.add(S.unb_list_len(b) >= 0)
            facts.add(S.inj_list(S.unb_list_len(b), S.unb_list_arr(b)) == b)
        return sv_list(S.unb_list_len(b), S.unb_list_arr(b), ty.elem)
    if isinstance(ty, TDict):
        b = V.bid(v)
        if assume_types:
            facts.add(V.is_box(v))
            facts.add(S.inj_dict(S.unb_dict_dom(b), S.unb_dict_map(b)) == b)
        return sv_dict(S.unb_dict_dom(b), S.unb_dict_map(b), ty.k, ty.v)
    if isinstance(ty, TTuple):
        n = len(ty.items)
        if n == 2:
            if assume_types:
                facts.add(V.is_pair(v))
            return sv_tuple([unbox(V.fst(v), ty.items[0], facts, assume_types), unbox(V.snd(v), ty.items[1], facts, assume_types)])
        cur = V.snd(v)
        out = []
        for it in ty.items:
            out.append(unbox(V.fst(cur), it, facts, assume_types))
            cur = V.snd(cur)
        return sv_tuple(out)
    if isinstance(ty, TObj) and ty.cls == "PosixPath":
        return SV("pathobj", z3.Function("path_str_of", V, S.Str)(v), TAny)
    if isinstance(ty, TObj):
        if assume_types:
            facts.add(V.is_obj(v))
        return sv_v(v, ty)
    return sv_v(v, ty)
