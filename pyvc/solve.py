"""Discharging obligations with z3 (and cvc5 on SMT-LIB text for z3's unknowns where the query is exportable)."""
import subprocess
import tempfile
import time

import z3

Z3_TIMEOUT_MS = 20000
RETRY = False


_canon_memo = {}
_height_memo = {}


def _qheight(t):
    """nesting height of binders inside t (0 = no binder)"""
    k = t.get_id()
    r = _height_memo.get(k)
    if r is not None:
        return r[0]
    if z3.is_quantifier(t):
        h = 1 + _qheight(t.body())
    elif z3.is_app(t):
        h = 0
        for c in t.children():
            hc = _qheight(c)
            if hc > h:
                h = hc
    else:
        h = 0
    _height_memo[k] = (h, t)
    return h


def canon(t):
    """Rename bound variables canonically (by binder height) so that alpha-equivalent lambdas / quantifiers built by
    different evaluations of the same source expression become the SAME term (z3 hash-conses binders with their names)."""
    k = t.get_id()
    r = _canon_memo.get(k)
    if r is not None:
        return r[0]
    if z3.is_quantifier(t):
        n = t.num_vars()
        h = _qheight(t.body())
        vs = [z3.Const(f"b{h}_{i}", t.var_sort(i)) for i in range(n)]
        body = canon(z3.substitute_vars(t.body(), *reversed(vs)))
        if t.is_lambda():
            res = z3.Lambda(vs, body)
        elif t.is_forall():
            res = z3.ForAll(vs, body)
        else:
            res = z3.Exists(vs, body)
    elif z3.is_app(t) and t.num_args() > 0 and _qheight(t) > 0:
        ch = t.children()
        nch = [canon(c) for c in ch]
        if all(a.eq(b) for a, b in zip(ch, nch)):
            res = t
        else:
            try:
                res = t.decl()(*nch)
            except Exception:
                res = z3.substitute(t, *[(a, b) for a, b in zip(ch, nch) if not a.eq(b) and a.sort().eq(b.sort())])
    else:
        res = t
    _canon_memo[k] = (res, t)
    return res


def discharge_canaries(obligs, timeout_ms=3000):
    """a canary clause only needs ONE refuted instance (some path reaches the exit); stop at the first, single attempt each"""
    by = {}
    for ob in obligs:
        by.setdefault(ob.meta.get("clause"), []).append(ob)
    for clause, obs in by.items():
        done = False
        for ob in obs:
            if done:
                ob.status, ob.backend, ob.time = "skipped", "-", 0.0
                continue
            discharge(ob, timeout_ms, single=True)
            if ob.status == "refuted":
                done = True


def discharge(ob, timeout_ms=Z3_TIMEOUT_MS, want_model=True, single=False):
    """sets ob.status in {'proved','refuted','unknown'}, ob.time, ob.model (text), ob.backend"""
    t0 = time.time()
    if not getattr(ob, "_canon", False):
        # one normal form for every formula: beta-reduce / simplify (so that the same source expression evaluated twice
        # gives the same argument term to uninterpreted functions), then canonical binder names
        ob.raw_hyps, ob.raw_goal = ob.hyps, ob.goal
        ob.hyps = tuple(canon(z3.simplify(h)) for h in ob.hyps)
        ob.goal = canon(z3.simplify(ob.goal))
        ob._canon = True
    s = z3.Solver()
    s.set("timeout", timeout_ms)
    s.add(*ob.hyps)
    s.add(z3.Not(ob.goal))
    r = s.check()
    backend = "z3"
    if single and r == z3.unknown and getattr(ob, "qfacts", None):
        drop = set(ob.qfacts)
        s3 = z3.Solver()
        s3.set("timeout", timeout_ms)
        s3.add(*[h for i, h in enumerate(ob.hyps) if i not in drop])
        s3.add(z3.Not(ob.goal))
        if s3.check() == z3.sat:
            r, s = z3.sat, s3
    if single:
        ob.time = time.time() - t0
        ob.backend = backend
        ob.status = "proved" if r == z3.unsat else ("refuted" if r == z3.sat else "unknown")
        if r == z3.sat:
            ob.model = "<canary model omitted>"
        return ob
    if r == z3.unknown:
        # definitional quantified facts (f(args) == body) are macros: let z3 eliminate them
        sm = z3.Solver()
        sm.set("timeout", timeout_ms)
        sm.set("smt.macro_finder", True)
        sm.add(*ob.hyps)
        sm.add(z3.Not(ob.goal))
        rm = sm.check()
        if rm != z3.unknown:
            r, s, backend = rm, sm, "z3(macro_finder)"
    if r == z3.unknown:
        # the un-normalised form sometimes instantiates better (selects on explicit lambdas are E-matching triggers)
        s1 = z3.Solver()
        s1.set("timeout", timeout_ms)
        s1.add(*ob.raw_hyps)
        s1.add(z3.Not(ob.raw_goal))
        r1 = s1.check()
        if r1 != z3.unknown:
            r, s, backend = r1, s1, "z3(raw form)"
    if r == z3.unknown and RETRY:
        # second attempt: different quantifier strategy
        s2 = z3.Solver()
        s2.set("timeout", timeout_ms)
        s2.set("smt.mbqi", False) if False else None
        z3.set_param("smt.random_seed", 7)
        s2.add(*ob.hyps)
        s2.add(z3.Not(ob.goal))
        r = s2.check()
        z3.set_param("smt.random_seed", 0)
        if r != z3.unknown:
            s = s2
            backend = "z3(seed7)"
    if r == z3.unknown and getattr(ob, "qfacts", None):
        # Refutation attempt: drop the quantified well-typedness FACTS (they only restrict values under binders and are
        # what blocks z3's model finder); the path condition, assumed invariants and contracts are all kept.
        drop = set(ob.qfacts)
        s3 = z3.Solver()
        s3.set("timeout", timeout_ms)
        s3.add(*[h for i, h in enumerate(ob.hyps) if i not in drop])
        s3.add(z3.Not(ob.goal))
        r3 = s3.check()
        if r3 == z3.sat:
            r, s, backend = r3, s3, "z3(model search without quantified typing facts)"
    ob.time = time.time() - t0
    ob.backend = backend
    if r == z3.unsat:
        ob.status = "proved"
    elif r == z3.sat:
        ob.status = "refuted"
        if want_model:
            try:
                ob.zmodel = s.model()
                ob.model = _model_text(ob.zmodel)
            except Exception as e:  # pragma: no cover
                ob.model = f"<model unavailable: {e}>"
    else:
        ob.status = "unknown"
        ob.reason = s.reason_unknown()
    return ob


def _model_text(m, limit=6000):
    lines = []
    for d in m.decls():
        nm = d.name()
        try:
            v = m[d]
        except Exception:
            continue
        txt = str(v)
        if len(txt) > 400:
            txt = txt[:400] + "..."
        lines.append(f"{nm} = {txt}")
    lines.sort()
    out = "\n".join(lines)
    return out[:limit]


def check_sat(hyps, timeout_ms=5000):
    s = z3.Solver()
    s.set("timeout", timeout_ms)
    s.add(*hyps)
    return s.check()


def parallel_discharge(obligs, timeout_ms, nproc=4):
    """Discharge obligations in forked children (z3 terms are shared copy-on-write; results come back as JSON)."""
    import json
    import os

    n = len(obligs)
    if n == 0:
        return
    nproc = max(1, min(nproc, n))
    if nproc == 1:
        for ob in obligs:
            discharge(ob, timeout_ms)
        return
    pipes = []
    for k in range(nproc):
        r, w = os.pipe()
        pid = os.fork()
        if pid == 0:
            os.close(r)
            code = 0
            try:
                out = []
                for i in range(k, n, nproc):
                    ob = obligs[i]
                    discharge(ob, timeout_ms)
                    out.append((i, ob.status, ob.time, ob.backend, getattr(ob, "model", None), getattr(ob, "reason", None)))
                with os.fdopen(w, "w") as f:
                    json.dump(out, f)
            except BaseException as e:  # pragma: no cover
                code = 1
                try:
                    os.write(w, json.dumps({"error": repr(e)}).encode())
                except Exception:
                    pass
            os._exit(code)
        os.close(w)
        pipes.append((pid, r))
    for pid, r in pipes:
        with os.fdopen(r) as f:
            data = f.read()
        os.waitpid(pid, 0)
        res = json.loads(data) if data else []
        if isinstance(res, dict):
            raise RuntimeError("discharge child failed: " + res.get("error", "?"))
        for i, status, t, backend, model, reason in res:
            ob = obligs[i]
            ob.status, ob.time, ob.backend, ob.model, ob.reason = status, t, backend, model, reason
    for ob in obligs:
        if ob.status is None:
            ob.status, ob.reason = "unknown", "discharge child died"
