"""Call evaluation: builtins, models, repo functions (inlined or by contract), constructors."""
import ast

import z3

from . import sorts as S
from .sorts import V
from .state import And, Frame, Not, Or, OutsideSubset, Raised
from .values import (
    SV,
    SV_NONE,
    Facts,
    TAny,
    TDict,
    TList,
    TObj,
    TOpt,
    TStr,
    TTuple,
    box,
    class_id,
    parse_type,
    strip_opt,
    sv_bool,
    sv_dict,
    sv_int,
    sv_list,
    sv_str,
    sv_tuple,
    sv_v,
)

DROPPED_CALLS = {"logger", "logging", "warnings"}


def eval_call(engine, n, st):
    # calls that are dropped by the translation (documented): logger.*, warnings.warn
    f = n.func
    if engine.spec_ctx and isinstance(f, ast.Name) and f.id not in st.env:
        from .spec import SPEC_FUNCS, _spec_call

        if f.id in SPEC_FUNCS:
            yield from _spec_call(engine, n, st)
            return
        if f.id in engine.spec_funcs:
            for st1, argv in eval_args(engine, n, st):
                if isinstance(argv, Raised):
                    yield st1, argv
                else:
                    yield from engine.spec_funcs[f.id](engine, st1, argv[0], argv[1])
            return
    if isinstance(f, ast.Attribute) and isinstance(f.value, ast.Name) and f.value.id in DROPPED_CALLS and f.value.id not in st.env:
        engine.dropped.add(f"{f.value.id}.{f.attr}")
        # arguments are still evaluated for their exceptions? They are message formatting only: dropped with the call.
        yield st, SV_NONE
        return
    # receiver-aware path for attribute calls (mutating methods need the receiver's lvalue)
    if isinstance(f, ast.Attribute):
        for st1, recv in engine.eval(f.value, st):
            if isinstance(recv, Raised):
                yield st1, recv
                continue
            for st2, argv in eval_args(engine, n, st1):
                if isinstance(argv, Raised):
                    yield st2, argv
                    continue
                args, kwargs = argv
                yield from call_attr(engine, st2, recv, f.attr, args, kwargs, f.value, n)
        return
    for st1, fv in engine.eval(f, st):
        if isinstance(fv, Raised):
            yield st1, fv
            continue
        for st2, argv in eval_args(engine, n, st1):
            if isinstance(argv, Raised):
                yield st2, argv
                continue
            args, kwargs = argv
            yield from call_value(engine, st2, fv, args, kwargs, n)


def eval_args(engine, n, st):
    """yields (state, (args, kwargs) | Raised); *x and **x are expanded when their shape is static enough"""
    nodes = []
    shape = []
    for a in n.args:
        if isinstance(a, ast.Starred):
            shape.append(("star", len(nodes)))
            nodes.append(a.value)
        else:
            shape.append(("pos", len(nodes)))
            nodes.append(a)
    for k in n.keywords:
        if k.arg is None:
            shape.append(("dstar", len(nodes)))
        else:
            shape.append(("kw", len(nodes), k.arg))
        nodes.append(k.value)
    for st1, vals in engine.eval_list(nodes, st):
        if isinstance(vals, Raised):
            yield st1, vals
            continue
        args, kwargs = [], {}
        for sh in shape:
            v = vals[sh[1]]
            if sh[0] == "pos":
                args.append(v)
            elif sh[0] == "kw":
                kwargs[sh[2]] = v
            elif sh[0] == "star":
                if v.kind == "tuple":
                    args.extend(v.t)
                elif v.kind == "list" and z3.is_int_value(z3.simplify(v.t[0])):
                    for i in range(z3.simplify(v.t[0]).as_long()):
                        st1, u = engine.unboxed(st1, v.t[1][i], v.ty.elem if isinstance(v.ty, TList) else TAny)
                        args.append(u)
                else:
                    args.append(SV("starargs", v))
            elif sh[0] == "dstar":
                if v.kind == "dict":
                    kwargs["**"] = v
                else:
                    raise OutsideSubset("** of a non-dict")
        yield st1, (args, kwargs)


def call_attr(engine, st, recv, attr, args, kwargs, recv_node, node):
    k = recv.kind
    # unwrap statically typed boxed containers so that their methods see the container kind
    if k == "v":
        inner = strip_opt(recv.ty)
        from .values import TSet, TGraph

        if (isinstance(inner, (TSet, TList, TDict, TTuple)) or inner in (TStr, TGraph)) and not isinstance(recv.ty, TOpt):
            st, u = engine.unboxed(st, recv.t, inner)
            u.origin = recv.origin
            recv, k = u, u.kind
    if (k, attr) in engine.method_models:
        yield from engine.method_models[(k, attr)](engine, st, recv, args, kwargs, recv_node)
        return
    if k == "super":
        selfv, cls = recv.t
        yield from call_super(engine, st, selfv, cls, attr, args, kwargs, node)
        return
    for st1, fv in engine.load_attr(st, recv, attr, ast.copy_location(ast.Attribute(value=recv_node, attr=attr, ctx=ast.Load()), node)):
        if isinstance(fv, Raised):
            yield st1, fv
        else:
            yield from call_value(engine, st1, fv, args, kwargs, node, recv_node=recv_node)


def call_super(engine, st, selfv, cls, attr, args, kwargs, node):
    fi = engine.repo.find_method(engine.repo.classes[strip_opt(selfv.ty).cls] if strip_opt(selfv.ty).cls in engine.repo.classes else cls, attr, after=cls)
    if fi is None:
        fi = engine.repo.find_method(cls, attr, after=cls)
    if fi is not None:
        yield from engine.call_repo(fi, [selfv] + list(args), kwargs, st, node)
        return
    # object's own slots
    if attr == "__init__":
        yield st, SV_NONE
        return
    if attr == "__setattr__":
        key, val = args
        yield from dynamic_setattr(engine, st, selfv, key, val)
        return
    if attr == "__getattribute__":
        (key,) = args
        nm = z3.simplify(engine.as_str(key))
        if z3.is_string_value(nm):
            # plain lookup without __getattr__
            from .builtins_model import load_obj_attr

            yield from load_obj_attr(engine, st.with_ghost("no_getattr", True), selfv, strip_opt(selfv.ty).cls, nm.as_string(), node)
            return
        # symbolic name: either one of the instance fields / class attributes or AttributeError
        yield from dynamic_getattribute(engine, st, selfv, key)
        return
    raise OutsideSubset(f"super().{attr}")


def dynamic_setattr(engine, st, o, key, val):
    """object.__setattr__(o, key, val) with a possibly symbolic key: case split over the class's known fields"""
    nm = z3.simplify(engine.as_str(key))
    if z3.is_string_value(nm):
        yield engine.write_field(st, o.t, nm.as_string(), val), SV_NONE
        return
    cname = strip_opt(o.ty).cls
    fields = sorted(engine.repo.all_fields(engine.repo.classes[cname]))
    st, bv = engine.boxed(st, val)
    for fld in fields:
        arr = engine.heap_arr(st, fld)
        st = st.with_heap(fld, z3.If(nm == z3.StringVal(fld), z3.Store(arr, o.t, bv), arr))
    # any other name lands in a generic attribute map that no modelled code reads
    yield st, SV_NONE


def dynamic_getattribute(engine, st, o, key):
    nm = engine.as_str(key)
    cname = strip_opt(o.ty).cls
    ci = engine.repo.classes[cname]
    fields = sorted(engine.repo.all_fields(ci))
    # a known field: its value (boxed); otherwise AttributeError or some method/attribute object (opaque)
    for fld in fields:
        for st1, hit in engine.fork(st, nm == z3.StringVal(fld)):
            if hit:
                st2, sv = engine.read_field(st1, o.t, cname, fld)
                yield st2, sv
            else:
                st = st1
    opaque = S.fresh("attrval", V)
    for st1, found in engine.fork(st, z3.Function("has_class_attr", S.Int, S.Str, S.Bool)(z3.IntVal(class_id(cname)), nm)):
        if found:
            yield st1, sv_v(opaque, TAny)
        else:
            yield st1, Raised("AttributeError", where="object.__getattribute__")


def call_value(engine, st, fv, args, kwargs, node=None, recv_node=None):
    k = fv.kind
    if k == "func":
        d = fv.t
        tag = d[0]
        if tag == "builtin":
            yield from engine.builtin_models[d[1]](engine, st, args, kwargs, node)
        elif tag == "ext":
            m = engine.ext_models.get(d[1])
            if m is None:
                raise OutsideSubset(f"no model for external function {d[1]}")
            engine.used_models.add(d[1])
            yield from m(engine, st, args, kwargs, node)
        elif tag == "repo":
            fi, bound = d[1], d[2]
            a = ([bound] if bound is not None else []) + list(args)
            yield from engine.call_repo(fi, a, kwargs, st, node)
        elif tag == "closure":
            yield from call_closure(engine, st, d, args, kwargs, node)
        elif tag == "method":
            _, recv, name, rnode = d
            yield from engine.method_models[(recv.kind, name)](engine, st, recv, args, kwargs, rnode)
        elif tag == "opaque_method":
            _, recv, cname, name = d
            engine.used_models.add(f"{cname}.{name}")
            yield from engine.opaque_classes[cname]["methods"][name](engine, st, recv, args, kwargs, node)
        elif tag == "subclasses":
            yield from subclasses_model(engine, st, d[1])
        elif tag == "py":
            yield from d[1](engine, st, args, kwargs, node)
        else:
            raise OutsideSubset(f"call of {tag}")
    elif k == "class":
        yield from construct(engine, st, fv.t, args, kwargs, node)
    elif k == "dynclass":
        raise OutsideSubset("call of type(x)")
    elif k == "view" and "call" in fv.t:
        yield from fv.t["call"](engine, st, args, kwargs)
    elif k == "v":
        inner = strip_opt(fv.ty)
        if isinstance(inner, TObj) and inner.cls in engine.repo.classes:
            fi = engine.repo.find_method(engine.repo.classes[inner.cls], "__call__")
            if fi is not None:
                yield from engine.call_repo(fi, [fv] + list(args), kwargs, st, node)
                return
        if inner == TAny:
            # a concrete class object (e.g. an element of BaseExtractor.__subclasses__()): construct that class
            from .values import _class_ids, class_value

            cv = z3.simplify(fv.t)
            if z3.is_app(cv) and cv.decl().eq(V.obj) and z3.is_int_value(cv.arg(0)) and cv.arg(0).as_long() < 0:
                k = -cv.arg(0).as_long()
                for nm, idn in _class_ids.items():
                    if idn == k:
                        yield from construct(engine, st, nm, args, kwargs, node)
                        return
            # a class object held in a variable (e.g. `cast` in parse_value): dispatch on the builtin classes

            rest = st
            for cname in ("str", "bool", "int"):
                nxt = None
                for st1, hit in engine.fork(rest, fv.t == class_value(cname)):
                    if hit:
                        yield from engine.builtin_models[cname](engine, st1, args, kwargs, node)
                    else:
                        nxt = st1
                if nxt is None:
                    return
                rest = nxt
            m = engine.ext_models.get("<call-of-value>")
            if m is not None:
                yield from m(engine, rest, [fv] + list(args), kwargs, node)
                return
            raise OutsideSubset("call of a value that is not provably one of str/bool/int")
        m = engine.ext_models.get("<call-of-value>")
        if m is not None:
            yield from m(engine, st, [fv] + list(args), kwargs, node)
            return
        raise OutsideSubset(f"call of a value of type {fv.ty}")
    elif k in ("set", "list", "dict", "tuple", "int", "str", "bool", "none", "graph"):
        yield st, Raised("TypeError", where=f"'{k}' object is not callable")
    elif k == "view" and "call" in fv.t:
        yield from fv.t["call"](engine, st, args, kwargs)
    else:
        raise OutsideSubset(f"call of {k}")


def subclasses_model(engine, st, cname):
    subs = [c for c in engine.repo.subclasses(cname) if c.name != cname and cname in c.bases]
    subs.sort(key=lambda c: c.name)
    yield engine.make_list(st, [SV("class", c.name) for c in subs])


def call_closure(engine, st, d, args, kwargs, node):
    _, fnode, env, frame = d
    if isinstance(fnode, ast.Lambda):
        new_env = dict(env)
        st = bind_params(engine, fnode.args, args, kwargs, new_env, st, frame, None)
        st1 = st.copy(env=new_env, frame=frame, depth=st.depth + 1)
        for st2, r in engine.eval(fnode.body, st1):
            yield st2.copy(env=st.env, frame=st.frame, depth=st.depth), r
        return
    new_env = dict(env)
    st = bind_params(engine, fnode.args, args, kwargs, new_env, st, frame, None)
    fi = None
    from .repo import FuncInfo

    fi = FuncInfo(frame.module, (frame.func.qualname + "." if frame.func else "") + fnode.name, fnode)
    st1 = st.copy(env=new_env, frame=Frame(frame.module, fi, frame.cls), depth=st.depth + 1)
    yield from run_body(engine, fnode.body, st1, st)


def run_body(engine, body, st_in, st_caller):
    if st_in.depth > engine.max_depth:
        raise OutsideSubset("inlining depth exceeded")
    for st2, out in engine.exec_block(body, st_in):
        back = st2.copy(env=st_caller.env, frame=st_caller.frame, depth=st_caller.depth)
        if out.kind == "normal":
            yield back, SV_NONE
        elif out.kind == "return":
            yield back, out.value
        elif out.kind == "raise":
            yield back, out.value
        else:
            raise OutsideSubset("break/continue escaping a function body")


def bind_params(engine, a, args, kwargs, env, st, frame, fi):
    """Python parameter binding (positional, keyword, defaults, *args, **kwargs)."""
    params = [p.arg for p in a.posonlyargs + a.args]
    args = list(args)
    kwargs = dict(kwargs)
    star_extra = kwargs.pop("**", None)
    if star_extra is not None and star_extra.kind == "dict" and z3.simplify(star_extra.t[0]).eq(S.EMPTY_SET):
        star_extra = None  # f(**{}) passes nothing
    if any(x.kind == "starargs" for x in args):
        # f(*xs) with xs of unknown length: only supported when the callee takes *args directly
        if a.vararg is not None and len(args) - 1 <= len(params):
            idx = [i for i, x in enumerate(args) if x.kind == "starargs"][0]
            if idx == len(params) and idx == len(args) - 1:
                for p, v in zip(params, args[:idx]):
                    env[p] = v
                env[a.vararg.arg] = args[idx].t
                if a.kwarg is not None:
                    env[a.kwarg.arg] = star_extra if star_extra is not None else sv_dict(S.EMPTY_SET, S.NONE_MAP, TStr, TAny)
                return st
        raise OutsideSubset("call with *args of unknown length")
    n = len(params)
    for i, p in enumerate(params):
        if i < len(args):
            env[p] = args[i]
        elif p in kwargs:
            env[p] = kwargs.pop(p)
        else:
            di = i - (n - len(a.defaults))
            if di < 0:
                raise OutsideSubset(f"missing argument {p}")
            env[p] = eval_default(engine, a.defaults[di], frame, fi, p)
    extra = args[n:]
    if a.vararg is not None:
        env[a.vararg.arg] = sv_tuple(extra)
    elif extra:
        raise OutsideSubset("too many positional arguments")
    for i, p in enumerate(a.kwonlyargs):
        if p.arg in kwargs:
            env[p.arg] = kwargs.pop(p.arg)
        else:
            env[p.arg] = eval_default(engine, a.kw_defaults[i], frame, fi, p.arg)
    if a.kwarg is not None:
        if star_extra is not None:
            if kwargs:
                raise OutsideSubset("mix of explicit keywords and ** into **kwargs")
            env[a.kwarg.arg] = star_extra
        else:
            dom, mp = S.EMPTY_SET, S.NONE_MAP
            f = Facts()
            for k, v in kwargs.items():
                kb = V.str_(z3.StringVal(k))
                dom = z3.Store(dom, kb, z3.BoolVal(True))
                mp = z3.Store(mp, kb, box(v, f))
            st = st.with_facts(f)
            env[a.kwarg.arg] = sv_dict(dom, mp, TStr, TAny)
    elif kwargs or star_extra is not None:
        if star_extra is not None and not kwargs:
            raise OutsideSubset("** into a function without **kwargs")
        raise OutsideSubset(f"unexpected keyword arguments {list(kwargs)}")
    return st


def eval_default(engine, expr, frame, fi, pname):
    """Default values are evaluated once, at definition time.  Literals are evaluated; a call (e.g. `Schema()`,
    `DummyMetaDataProvider()`) denotes ONE object created at import: a ghost global object."""
    if isinstance(expr, ast.Call):
        fn = expr.func
        nm = fn.id if isinstance(fn, ast.Name) else None
        r = engine.repo.resolve_global(frame.module, nm) if nm else None
        key = f"default:{fi.fq if fi else '?'}:{pname}"
        if r and r[0] == "class":
            return engine.global_object(key, r[1].name)
        return engine.global_object(key, "<opaque>")
    from .state import State

    res = list(engine.eval(expr, State(frame=Frame(frame.module))))
    if len(res) != 1 or isinstance(res[0][1], Raised):
        raise OutsideSubset("default value")
    return res[0][1]


def call_repo(engine, fi, args, kwargs, st, node=None):
    c = engine.contracts.get(fi.fq)
    if c is not None and c.at_calls and engine.verifying != fi.fq and not getattr(engine, "inline_all", False):
        from .spec import call_by_contract

        yield from call_by_contract(engine, c, fi, args, kwargs, st, node)
        return
    if fi.fq in engine.ext_models:
        # an assumed contract given as a model (trusted), e.g. abstract methods
        engine.used_models.add(fi.fq)
        yield from engine.ext_models[fi.fq](engine, st, args, kwargs, node)
        return
    # lazy_method / lazy_property wrappers are inlined: wrapper body = if not self._evaluated: self._eval(); func()
    if "lazy_method" in fi.decorators or "lazy_property" in fi.decorators:
        if not st.ghost.get("in_lazy:" + fi.fq):
            yield from lazy_wrapper(engine, fi, args, kwargs, st, node)
            return
    new_env = {}
    frame = Frame(fi.module, fi, fi.cls, fi.fq)
    st = bind_params(engine, fi.node.args, args, kwargs, new_env, st, frame, fi)
    if any(d.split(".")[-1] == "contextmanager" for d in fi.decorators):
        # a generator-based context manager: nothing runs until the with statement enters it
        yield st, SV("gencm", (fi, new_env))
        return
    # declared parameter types refine dynamically typed arguments
    for p in fi.node.args.args:
        if p.annotation is not None and p.arg in new_env and new_env[p.arg].kind == "v" and new_env[p.arg].ty == TAny:
            ty = parse_type(p.annotation)
            if ty != TAny:
                st, u = engine.unboxed(st, new_env[p.arg].t, ty)
                new_env[p.arg] = u
    own = {x.arg for x in (fi.node.args.vararg, fi.node.args.kwarg) if x is not None}
    for name, v in list(new_env.items()):
        if v.kind in ("list", "set", "dict") and v.origin is None and name not in own:
            v2 = SV(v.kind, v.t, v.ty, ("param", name))
            new_env[name] = v2
    st1 = st.copy(env=new_env, frame=frame, depth=st.depth + 1)
    yield from run_body(engine, fi.node.body, st1, st)


def lazy_wrapper(engine, fi, args, kwargs, st, node):
    """runner.lazy_method, executed from its real source: the wrapper's body with `func` bound to fi"""
    lm = engine.repo.func("sqllineage.runner.lazy_method")
    if lm is None:
        raise OutsideSubset("lazy_method not found")
    wrapper = [s for s in lm.node.body if isinstance(s, ast.FunctionDef)][0]
    env = {"func": SV("func", ("py", lambda e, s, a, k, n: e.call_repo(fi, a, k, s.with_ghost("in_lazy:" + fi.fq, True), n)))}
    frame = Frame(lm.module, lm, None, lm.fq)
    st = bind_params(engine, wrapper.args, args, kwargs, env, st, frame, lm)
    st1 = st.copy(env=env, frame=frame, depth=st.depth + 1)
    for st2, r in run_body(engine, wrapper.body, st1, st):
        yield st2.with_ghost("in_lazy:" + fi.fq, False), r


def call_method(engine, st, recv, name, args, kwargs, recv_node):
    """call recv.name(*args) where recv is an SV (used for dunder dispatch: __enter__, __exit__ ...)"""
    if recv.kind == "file":
        if name == "__enter__":
            yield st, recv
        elif name == "__exit__":
            yield st, SV_NONE
        else:
            yield from engine.method_models[("file", name)](engine, st, recv, args, kwargs, recv_node)
        return
    for st1, fv in engine.load_attr(st, recv, name, None):
        if isinstance(fv, Raised):
            yield st1, fv
        else:
            yield from call_value(engine, st1, fv, args, kwargs, None)


def construct(engine, st, cname, args, kwargs, node):
    ci = engine.repo.classes.get(cname)
    if ci is None:
        if cname in engine.exc_parent:
            yield st, SV("exc", Raised(cname, value=(args[0] if args else None)), TObj(cname))
            return
        oc = engine.opaque_classes.get(cname)
        if oc and "new" in oc:
            engine.used_models.add(cname)
            yield from oc["new"](engine, st, args, kwargs, node)
            return
        if cname in ("str", "int", "bool", "list", "set", "dict", "tuple"):
            yield from engine.builtin_models[cname](engine, st, args, kwargs, node)
            return
        raise OutsideSubset(f"construction of unknown class {cname}")
    if cname in engine.named_tuples():
        fields, ty = engine.named_tuples()[cname]
        items = []
        for i, (fname, fty, dflt) in enumerate(fields):
            if i < len(args):
                items.append(args[i])
            elif fname in kwargs:
                items.append(kwargs[fname])
            elif dflt is not None:
                items.append(eval_default(engine, dflt, Frame(ci.module), None, fname))
            else:
                raise OutsideSubset(f"NamedTuple {cname}: missing {fname}")
        yield st, SV("tuple", items, TObj(cname))
        return
    if engine.is_exc_subclass(cname, "BaseException"):
        yield st, SV("exc", Raised(cname, value=(args[0] if args else None)), TObj(cname))
        return
    c = engine.contracts.get(f"{ci.module.name}.{cname}.__new__")
    st1, o = engine.new_object(st, cname)
    init = engine.repo.find_method(ci, "__init__")
    if init is None:
        yield st1, o
        return
    for st2, r in engine.call_repo(init, [o] + list(args), kwargs, st1, node):
        yield (st2, r) if isinstance(r, Raised) else (st2, o)
