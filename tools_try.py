"""dev helper: python3-vt tools_try.py mod1,mod2 [substr ...]  -- verify matching functions serially, print statuses"""
import sys, time, traceback
sys.path.insert(0, '/verif')
from pyvc import run as R
from pyvc.repo import Repo
from pyvc.spec import verify_function
from pyvc.solve import discharge, parallel_discharge
mods = sys.argv[1].split(',')
which = sys.argv[2:]
mode = 'prove'
if which and which[0] in ('--refute',):
    mode = 'refute'; which = which[1:]
contracts, ft, ms = R.load_contract_modules(mods)
repo = Repo()
for fq, c in contracts.items():
    if which and not any(w in fq for w in which): continue
    if c.assume_only: continue
    eng = R._mk_engine(repo, contracts, ft, ms, mode, 2)
    t = time.time()
    try:
        summ = verify_function(eng, c)
    except Exception as e:
        traceback.print_exc(); print("FAILED", fq); continue
    print(fq, 'paths', summ['paths'], summ['outcomes'][:12], 'obl', summ['obligations'], 'warn', summ['spec_warnings'][:3], f"{time.time()-t:.2f}s")
    parallel_discharge(eng.obligs, 8000, 8)
    for ob in eng.obligs:
        if ob.status != 'proved' or '-v' in sys.argv:
            print("   ", ob.status, f"{ob.time:.2f}", ob.name, ob.meta.get('where') or '')
