"""Bounded native check for C06: well-formedness of every analysis result over the harvested corpus (test-suite SQL with its
dialects + bundled TPC-DS) and a small generator of multi-statement scripts.

  --thorough         also the non-validating analyzer on every ansi input
  --confirm ID       re-run the recorded witness of known finding ID only; exit 1 iff it still fails
"""
import json
import logging
import sys
import warnings

import networkx as nx

logging.disable(logging.CRITICAL)
warnings.filterwarnings("ignore")

from corpus import corpus  # noqa: E402

from sqllineage.core.models import Column, Path, SubQuery, Table  # noqa: E402
from sqllineage.runner import LineageRunner  # noqa: E402
from sqllineage.utils.constant import EdgeType  # noqa: E402

GENERATED = [
    ("insert into t2 select a, b from t1; insert into t3 select a from t2", "ansi"),
    ("create table t (a int, b int); insert into t (a, b) select x, y from s", "ansi"),
    ("insert into t (a) values (1)", "ansi"),
    ("insert into t select x.a + y.b as c from (select a from s) x join (select a as b from s2) y on x.a = y.b", "ansi"),
    ("with c1 as (select a, b from s), c2 as (select a from c1) insert into t select c2.a, c1.b from c2 join c1 on c2.a = c1.a", "ansi"),
    ("insert into t select a from s1 union all select b from s2", "ansi"),
    ("insert into t select id, name from s1 join s2 on s1.id = s2.id", "ansi"),
    ("update t set a = s.b from s where t.id = s.id", "ansi"),
    ("merge into t using s on t.id = s.id when matched then update set t.a = s.a when not matched then insert (id, a) values (s.id, s.a)", "ansi"),
    ("insert into a select x from b; insert into b select x from a", "ansi"),
    # the middle table of a chain is also read by a SELECT-only statement; one of its columns is not consumed downstream
    ("insert into mid select a, b from s; select count(*) from mid; insert into tgt select a from mid", "ansi"),
    ("select * from mid; insert into mid select a, b from s; insert into tgt select a from mid", "ansi"),
    # late resolution of an unqualified column against several candidates (owners of the repaired columns)
    ("create table m1 as select id, a from s1; create table m2 as select id, b from s2; insert into tgt select id, a, b from m1 join m2 using (id)", "ansi"),
    ("insert into mid select a from s; insert into tgt select a from mid join other on mid.k = other.k", "ansi"),
    ("update tmp_rates set rate = base_rate; drop table tmp_rates", "ansi"),
    ("create table t (a int, b int); drop table t", "ansi"),
    ("insert into t (a) values (1); drop table t", "ansi"),
    ("insert into t select case when a > 0 then b else c end as d, cast(e as int) f, sum(g) over (partition by h) i from s", "ansi"),
]
# known finding witnesses: exactly these inputs are kept out of the regular run and re-confirmed by --confirm ID
LV1 = "INSERT OVERWRITE TABLE foo SELECT sc.id, q.item0, q.item1 FROM bar sc LATERAL VIEW json_tuple(sc.json, 'key1', 'key2') q AS item0, item1"
LV2 = "INSERT OVERWRITE TABLE foo SELECT sc.id, q.col1 FROM bar sc LATERAL VIEW OUTER explode(sc.json_array) q AS col1"
KNOWN = {
    "D21": [("insert into t select foo.a from bar", "ansi")],
    "D22": [("insert into t select (select max(x) from u) as m, a from s", "ansi")],
    "D23": [("INSERT INTO tab1 SELECT * FROM tab2; ALTER TABLE tab1 RENAME TO tab3;", "ansi"), ("INSERT INTO tab1 SELECT * FROM tab2; ALTER TABLE tab1 RENAME TO tab3;", "non-validating")],
    # D28: sqlparse analyzer does not take a keyword-like word (catalog) as a derived-table alias
    "D28": [("insert into t select catalog.x from (select x from s) catalog", "non-validating")],
    "D24": [(q, d) for q in (LV1, LV2) for d in ("databricks", "hive", "sparksql")],
}


# same families as the known findings, other inputs: these must pass
FAMILY = [
    ("insert into t select bar.a from bar", "ansi"),
    # a derived table / CTE column that nobody reads outside: a path that ends in a sub-query exists but is not a default answer
    ("insert into t select sq.a from (select a, b from src) sq", "ansi"),
    ("insert into t select sq.a from (select a, b from src) sq", "non-validating"),
    ("insert into t with c as (select a, b from src) select c.a from c", "ansi"),
    ("insert into t select a, (select max(x) from s) as m from s", "ansi"),
    ("INSERT INTO tab1 SELECT a FROM tab2; ALTER TABLE tab9 RENAME TO tab3;", "ansi"),
]


# corpus files that are witnesses of a known finding: (path relative to the repository, dialect) -> finding
KNOWN_FILES = {("sqllineage/data/tpcds/query49.sql", "non-validating"): "D28"}


def check(sql, dialect):
    """returns a list of (clause, detail) violated by the analysis result of one input"""
    r = LineageRunner(sql, dialect=dialect)
    # the clauses are about the DEFAULT answer, whatever was asked of the same runner before: ask for the paths that end in
    # sub-queries first, and compare the default answer with the one a fresh runner gives
    r.get_column_lineage(exclude_path_ending_in_subquery=False)
    paths = r.get_column_lineage()
    holder = r._sql_holder
    g = holder.graph
    bad = []
    fresh = LineageRunner(sql, dialect=dialect).get_column_lineage()
    if [tuple(map(str, p)) for p in fresh] != [tuple(map(str, p)) for p in paths]:
        bad.append(("default_paths_do_not_depend_on_earlier_calls_with_other_flags", f"{len(paths)} paths after a call with exclude_path_ending_in_subquery=False, {len(fresh)} on a fresh runner"))
    src_t, tgt_t, mid_t = set(r.source_tables), set(r.target_tables), set(r.intermediate_tables)
    tg = holder.table_lineage_graph
    cols = [n for n in g.nodes if isinstance(n, Column)]
    cg = g.subgraph(cols)
    for p in paths:
        ps = [str(c) for c in p]
        if len(p) < 2:
            bad.append(("path_has_at_least_one_hop", ps))
            continue
        if not all(isinstance(c, Column) for c in p):
            bad.append(("path_consists_of_columns", ps))
            continue
        for a, b in zip(p, p[1:]):
            if not (g.has_edge(a, b) and g.edges[a, b].get("type") == EdgeType.LINEAGE):
                bad.append(("path_is_a_chain_of_direct_dependencies", ps))
        if cg.in_degree(p[0]) != 0:
            bad.append(("path_starts_at_a_column_nothing_feeds", ps))
        last = p[-1].parent
        if not isinstance(last, (Table, Path)):
            bad.append(("path_ends_at_a_column_of_a_written_table", ps))
        elif last not in tgt_t | mid_t:
            bad.append(("owner_of_the_last_column_is_a_target_or_intermediate_table", ps + [str(last)]))
        first = p[0].parent
        if isinstance(first, (Table, Path)):
            if first not in src_t | mid_t | (tgt_t if first in tgt_t and tg.has_node(first) and tg.out_degree(first) > 0 or first in holder._selfloop_tables else set()):
                bad.append(("resolved_source_column_belongs_to_a_table_the_script_reads", ps + [str(first)]))
            elif isinstance(last, (Table, Path)) and not (first == last or (tg.has_node(first) and tg.has_node(last) and nx.has_path(tg, first, last))):
                bad.append(("table_graph_connects_source_and_target_owner", ps + [str(first), str(last)]))
    # internal consistency of the combined graph
    nodes = list(g.nodes)
    for n in nodes:
        if n not in g or not g.has_node(n):
            bad.append(("every_node_is_retrievable_by_equality_and_hash", str(n)))
        same = [m for m in nodes if m == n]
        if len(same) != 1:
            bad.append(("every_node_is_retrievable_by_equality_and_hash", f"{n}: {len(same)} nodes compare equal"))
        if any(hash(m) != hash(n) for m in same):
            bad.append(("equal_nodes_hash_alike", str(n)))
    for c in cols:
        owners = [u for u, _, t in g.in_edges(c, data="type") if t == EdgeType.HAS_COLUMN]
        if len(c._parent) == 1:
            if len(owners) != 1 or owners[0] != c.parent:
                bad.append(("a_resolved_column_has_exactly_one_owner", f"{c}: owners {[str(o) for o in owners]} parent {c.parent}"))
    return bad


def main():
    thorough = "--thorough" in sys.argv
    confirm = sys.argv[sys.argv.index("--confirm") + 1] if "--confirm" in sys.argv else None
    if confirm:
        out = []
        extra = [(s_, d_) for s_, d_, w_ in corpus() if KNOWN_FILES.get((w_, "non-validating")) == confirm for d_ in ["non-validating"]]
        for sql, d in KNOWN[confirm] + extra:
            out += [{"clause": c, "detail": x, "sql": sql[:300], "dialect": d} for c, x in check(sql, d)[:2]]
        print(json.dumps({"violations": out[:6]}))
        return 1 if out else 0
    inputs = [(s, d, w) for s, d, w in corpus()] + [(s, d, "generated") for s, d in GENERATED] + [(q, d, "family of a known finding") for q, d in FAMILY]
    if thorough:
        inputs += [(s, "non-validating", w) for s, d, w in inputs if d == "ansi"]
    known_inputs = {(" ".join(q.split()), d) for v in KNOWN.values() for q, d in v}
    fails, evals, skipped, nontrivial = [], 0, 0, 0
    for sql, d, where in inputs:
        if (" ".join(sql.split()), d) in known_inputs or (where, d) in KNOWN_FILES:
            continue
        try:
            bad = check(sql, d)
        except Exception as e:  # analysis failure is C10's business
            skipped += 1
            continue
        evals += 1
        if "insert" in sql.lower() or "create" in sql.lower():
            nontrivial += 1
        for c, x in bad[:2]:
            fails.append({"clause": c, "detail": x, "sql": sql[:400], "dialect": d, "where": where})
    print(json.dumps({"evaluations": evals, "skipped_analysis_errors": skipped, "distinct_nontrivial": nontrivial, "violations": fails[:40], "n_violations": len(fails), "input": fails[0] if fails else None}))
    return 1 if fails else 0


if __name__ == "__main__":
    sys.exit(main())
