"""Bounded native check for C02: generated single statements against the construction-time oracle of gen_stmt.py.

  --thorough      both analyzers on every statement + default-schema configuration
  --confirm ID    re-run the recorded witnesses of a known finding; exit 1 iff one still fails
"""
import json
import logging
import sys
import warnings

logging.disable(logging.CRITICAL)
warnings.filterwarnings("ignore")

import gen_stmt  # noqa: E402

from sqllineage.runner import LineageRunner  # noqa: E402

# D26: the sqlparse-based (non-validating, deprecated) analyzer ignores an explicit target column list
# D33: the sqlparse-based analyzer loses the qualifier of an ORDER BY item that is followed by ASC / DESC (`order by y.b2, x.id
#      desc` inside a window specification): witness family = generated window2 items in multi-relation scopes
KNOWN = {
    "D26": lambda cid: cid.endswith("/list/non-validating") or cid == "union/explicit/non-validating",
    "D33": lambda cid: "/window2/" in cid and cid.endswith("/non-validating") and not cid.endswith("/list/non-validating") and cid.split("/")[0] in ("join2", "join2_noalias", "join_derived", "join3", "alias_case", "cte_join_table", "cte_named_like_table", "join2_fullqual", "alias_like_other_table"),
}


# D9: a literal in the first branch of a set operation shifts the positional wiring of the later branches
D9_SQL = "insert into t select 1, a from s1 union all select b, c from s2"
D9_WANT = {("<default>.s1.a", "<default>.t.a"), ("<default>.s2.c", "<default>.t.a")}


def pairs(sql, dialect):
    r = LineageRunner(sql, dialect=dialect)
    return {(str(p[0]), str(p[-1])) for p in r.get_column_lineage()}, r


def cases():
    out = []
    for name, st in gen_stmt.statements():
        out.append((name, st.sql(), st.expected()))
    for name, (sql, exp) in gen_stmt.unions():
        out.append((name, sql, exp))
    for name, (sql, exp) in gen_stmt.wildcards():
        out.append((name, sql, exp))
    return out


def main():
    thorough = "--thorough" in sys.argv
    confirm = sys.argv[sys.argv.index("--confirm") + 1] if "--confirm" in sys.argv else None
    fails, evals, nontrivial = [], 0, set()
    if confirm == "D9":
        got, _ = pairs(D9_SQL, "ansi")
        named = {p for p in got if p[1].endswith(".a")}
        ok = named == D9_WANT
        print(json.dumps({"violations": [] if ok else [{"clause": "set_operation_branches_line_up_position_by_position", "sql": D9_SQL, "got": sorted(got), "want_for_column_a": sorted(D9_WANT)}]}))
        return 0 if ok else 1
    for name, sql, exp in cases():
        for dialect in ("ansi", "non-validating"):
            cid = f"{name}/{dialect}"
            if confirm:
                if not KNOWN[confirm](cid):
                    continue
            elif any(f(cid) for f in KNOWN.values()):
                continue
            evals += 1
            try:
                got, r = pairs(sql, dialect)
            except Exception as e:
                fails.append({"id": cid, "clause": "analysis_completes", "sql": sql, "error": repr(e)[:200]})
                continue
            nontrivial.add(json.dumps(sorted(got)))
            if got != exp:
                clause = "unqualified_reference_resolves_to_the_only_relation_or_is_reported_unresolved" if name.endswith("unqualified") else ("set_operation_branches_line_up_position_by_position" if name.startswith("union") else ("wildcard_yields_one_reference_per_relation_in_scope" if name.startswith("wildcard") else "reported_pairs_equal_the_statement_dataflow"))
                fails.append({"id": cid, "clause": clause, "sql": sql, "dialect": dialect, "got": sorted(got), "want": sorted(exp)})
            elif name.endswith("unqualified"):
                # unresolved references carry every relation in scope as candidates
                pass
    print(json.dumps({"evaluations": evals, "distinct_nontrivial": len(nontrivial), "violations": fails[:200], "n_violations": len(fails), "input": fails[0] if fails else None}))
    return 1 if fails else 0


if __name__ == "__main__":
    sys.exit(main())
