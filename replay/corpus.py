"""Harvest the SQL corpus from the repository under test (re-read on every run): the SQL strings of tests/sql/**/*.py with
their dialects (constants of the assert_* helper calls and of pytest parametrize decorators) and the bundled TPC-DS queries.
"""
import ast
import glob
import os

ROOT = os.environ.get("VERIF_REPO", "/repo")


def _const_str(node, env):
    if isinstance(node, ast.Constant) and isinstance(node.value, str):
        return node.value
    if isinstance(node, ast.Name) and node.id in env:
        return env[node.id]
    return None


def harvest_tests():
    out = []
    for path in sorted(glob.glob(os.path.join(ROOT, "tests", "sql", "**", "*.py"), recursive=True)):
        try:
            tree = ast.parse(open(path).read())
        except SyntaxError:
            continue
        for fn in [n for n in ast.walk(tree) if isinstance(n, ast.FunctionDef)]:
            env, dialects = {}, None
            for d in fn.decorator_list:
                if isinstance(d, ast.Call) and ast.unparse(d.func).endswith("parametrize") and len(d.args) >= 2 and isinstance(d.args[0], ast.Constant) and d.args[0].value == "dialect":
                    if isinstance(d.args[1], (ast.List, ast.Tuple)):
                        dialects = [e.value for e in d.args[1].elts if isinstance(e, ast.Constant) and isinstance(e.value, str)]
            for sub in ast.walk(fn):
                if isinstance(sub, ast.Assign) and len(sub.targets) == 1 and isinstance(sub.targets[0], ast.Name) and isinstance(sub.value, ast.Constant) and isinstance(sub.value.value, str):
                    env[sub.targets[0].id] = sub.value.value
            for sub in ast.walk(fn):
                if not (isinstance(sub, ast.Call) and isinstance(sub.func, ast.Name) and sub.func.id.startswith("assert_")):
                    continue
                sql = None
                if sub.args:
                    sql = _const_str(sub.args[0], env)
                for kw in sub.keywords:
                    if kw.arg == "sql":
                        sql = _const_str(kw.value, env)
                if not sql:
                    continue
                dl = None
                for kw in sub.keywords:
                    if kw.arg == "dialect":
                        if isinstance(kw.value, ast.Constant):
                            dl = [kw.value.value]
                        elif isinstance(kw.value, ast.Name) and kw.value.id == "dialect":
                            dl = dialects
                k = 2 if sub.func.id == "assert_column_lineage_equal" else 3
                if len(sub.args) > k and isinstance(sub.args[k], ast.Constant) and isinstance(sub.args[k].value, str):
                    dl = [sub.args[k].value]
                elif len(sub.args) > k and isinstance(sub.args[k], ast.Name) and sub.args[k].id == "dialect":
                    dl = dialects
                for d_ in dl or ["ansi"]:
                    out.append((sql, d_, os.path.relpath(path, ROOT) + ":" + fn.name))
    seen, uniq = set(), []
    for sql, d_, where in out:
        if (sql, d_) not in seen:
            seen.add((sql, d_))
            uniq.append((sql, d_, where))
    return uniq


def harvest_tpcds():
    out = []
    for path in sorted(glob.glob(os.path.join(ROOT, "sqllineage", "data", "tpcds", "*.sql"))):
        out.append((open(path).read(), "ansi", os.path.relpath(path, ROOT)))
    return out


def corpus(tpcds=True):
    return harvest_tests() + (harvest_tpcds() if tpcds else [])


if __name__ == "__main__":
    c = corpus()
    import collections

    print(len(c), collections.Counter(d for _, d, _ in c).most_common(30))
