"""Bounded native stand-in for the parts of C05 that belong to sqlparse's lexer / sqlfluff's T-SQL grammar (statement
segmentation), and cross-check of the proved assembly: scripts of 1..n corpus statements joined by every separator variant."""
import itertools
import json
import os
import sys
import warnings

from sqllineage.core.holders import SQLLineageHolder
from sqllineage.core.metadata.dummy import DummyMetaDataProvider
from sqllineage.runner import LineageRunner
from sqllineage.utils.helpers import split, trim_comment

warnings.simplefilter("ignore")
STMTS = [
    "insert into t1 select a, b from s1",
    "create table t2 as select a from t1 where c = ';'",
    "insert into t3 select x.a from t2 x join s2 y on x.id = y.id",
    "select * from t3",
    "insert into t4 select 'a;b' as k, a from t3 -- tail; comment\n",
    "drop table t9",
    # a ';' inside a comment / literal in the MIDDLE of a statement (more statement text follows it)
    "insert into t5 select s.a from s5 s -- fixme; temporary\n join u5 u on s.i = u.i",
    "insert into t6 select a from s6 where b = 'x;y' and c = 1",
]
SEPS = [";", ";;", ";\n", "\n;\n", "; -- c;omment\n", ";\n/* block; comment */\n", ";\n/* only a comment */;\n", " ;\n-- disabled: select 1;\n;\n"]
LEAD = ["", "\n\n", "-- header; line\n", "/* header */ ;\n", ";"]
TRAIL = ["", ";", ";\n\n", ";\n-- the end;", "\n/* end */;"]
TSQL = ["insert into t1 select a from s1", "insert into t2 select a from t1 where c = ';'", "select * from t2 -- x;y", "insert into t3 select a from t2"]


def norm(s):
    return " ".join(trim_comment(s).replace(";", " ; ").split()).rstrip(" ;").strip()


def lineage(r):
    return ([str(t) for t in r.source_tables], [str(t) for t in r.target_tables], [str(t) for t in r.intermediate_tables], sorted(tuple(map(str, p)) for p in r.get_column_lineage()))


def main():
    n = 2
    thorough = "--thorough" in sys.argv
    a = sys.argv[1:]
    while a:
        if a[0] == "--n":
            n = int(a[1]); a = a[2:]
        else:
            a = a[1:]
    fails, evals, distinct = [], 0, set()

    def bad(clause, **kw):
        if len(fails) < 4:
            fails.append(dict(clause=clause, **{k: (v if isinstance(v, (int, list)) else str(v)) for k, v in kw.items()}))

    singles = {}
    for s in list(STMTS):
        try:
            singles[s] = LineageRunner(s)
            singles[s]._eval()
            if [norm(x) for x in singles[s].statements()] != [norm(s)]:
                bad("ensures.the_kept_statements_in_order_nothing_else", script=s, got=singles[s].statements(), want=[s])
        except Exception as e:
            # a corpus statement that cannot even be analysed on its own: reported, then left out of the combinations
            bad("ensures.the_kept_statements_in_order_nothing_else", script=s, error=repr(e)[:200])
            STMTS.remove(s)
            singles.pop(s, None)
    for k in range(1, n + 1):
        for combo in itertools.permutations(range(len(STMTS)), k):
            full = itertools.product(SEPS, LEAD, TRAIL) if (thorough and k <= 2) else (itertools.product(SEPS, LEAD[:3], TRAIL[:3]) if k == 1 else [(SEPS[(sum(combo) + j) % len(SEPS)], LEAD[(sum(combo) + j) % len(LEAD)], TRAIL[(combo[0] + j) % len(TRAIL)]) for j in range(3)])
            for sep, lead, trail in full:
                script = lead + sep.join(STMTS[i] for i in combo) + trail
                if script in distinct:
                    continue
                distinct.add(script)
                evals += 1
                r = LineageRunner(script)
                try:
                    got = [norm(x) for x in r.statements()]
                except Exception as e:
                    bad("ensures.the_kept_statements_in_order_nothing_else", script=script, error=repr(e))
                    continue
                want = [norm(STMTS[i]) for i in combo]
                if got != want:
                    bad("ensures.the_kept_statements_in_order_nothing_else", script=script, got=got, want=want)
                    continue
                if len(r._stmt_holders) != len(combo):
                    bad("ensures.one_holder_per_statement_in_order", script=script, holders=len(r._stmt_holders))
                alone = SQLLineageHolder.of(DummyMetaDataProvider(), *[singles[STMTS[i]]._stmt_holders[0] for i in combo])
                comp = ({str(t) for t in alone.source_tables}, {str(t) for t in alone.target_tables}, {str(t) for t in alone.intermediate_tables}, {tuple(map(str, p)) for p in alone.get_column_lineage()})
                mine = lineage(r)
                if (set(mine[0]), set(mine[1]), set(mine[2]), set(mine[3])) != comp:
                    bad("script_lineage_is_the_combination_of_its_statements", script=script, got=str(mine), want=str(comp))
    # the same statement text twice (and three times) in one script: still one holder and one reported statement per occurrence
    for rep in (2, 3):
        for base in STMTS[:3]:
            for sep in (";", ";\n", "; -- c;omment\n"):
                script = sep.join([base] * rep) + ";"
                evals += 1
                r = LineageRunner(script)
                got = [norm(x) for x in r.statements()]
                if got != [norm(base)] * rep:
                    bad("ensures.the_kept_statements_in_order_nothing_else", script=script, got=got, want=[norm(base)] * rep)
                elif len(r._stmt_holders) != rep:
                    bad("ensures.one_holder_per_statement_in_order", script=script, holders=len(r._stmt_holders))
    # leading / trailing blank lines and comments around a script do not change what is analysed
    for lead, trail in (("\n\n  ", "\n\n"), ("-- header\n", "\n-- footer"), ("/* h */\n", "\n/* f */"), ("\t", " \t\n")):
        script = lead + STMTS[0] + ";\n" + STMTS[2] + trail
        evals += 1
        r = LineageRunner(script)
        got = [norm(x) for x in r.statements()]
        if got != [norm(STMTS[0]), norm(STMTS[2])] or len(r._stmt_holders) != 2:
            bad("ensures.the_kept_statements_in_order_nothing_else", script=script, got=got)
    # executable reading of the contract of helpers.split against the real function, on token soups (cheap: sqlparse only)
    import sqlparse
    from sqlparse.tokens import Punctuation

    def keep(st):
        ft = st.token_first(skip_cm=True)
        return bool(ft) and not (ft.ttype == Punctuation and ft.value == ";")

    frags = [",", ")", ".", "::", ";", "-- c;\n", "/* c; */", "select 1", "'a;b'", " ", "\n", "drop table t"]
    for k in range(1, 5 if thorough else 4):
        for combo in itertools.product(frags, repeat=k):
            text = " ".join(combo)
            evals += 1
            try:
                want = [st.value for st in sqlparse.parse(text) if keep(st)]
                got = split(text)
            except Exception:
                continue
            if got != want:
                bad("ensures.the_kept_statements_in_order_nothing_else", text=text, got=got, want=want)
                break
    # T-SQL without semicolons
    os.environ["SQLLINEAGE_TSQL_NO_SEMICOLON"] = "TRUE"
    try:
        for k in range(1, (min(n, 3) + 2) if thorough else 3):
            for combo in itertools.permutations(range(len(TSQL)), k):
                for sep in ("\n", "\n\n", "\n-- c;\n", ";\n"):
                    script = sep.join(TSQL[i] for i in combo)
                    evals += 1
                    r = LineageRunner(script, dialect="tsql")
                    try:
                        got = [norm(x) for x in r.statements()]
                    except Exception as e:
                        bad("ensures.tsql_batches_are_split_by_the_parser_iff_enabled_for_tsql", script=script, error=repr(e))
                        continue
                    want = [norm(TSQL[i]) for i in combo]
                    if got != want:
                        bad("ensures.tsql_batches_are_split_by_the_parser_iff_enabled_for_tsql", script=script, got=got, want=want)
                        continue
                    semi = LineageRunner(";\n".join(TSQL[i] for i in combo), dialect="tsql")
                    if lineage(r) != lineage(semi):
                        bad("tsql_script_without_semicolons_equals_the_same_script_with_semicolons", script=script, got=str(lineage(r)), want=str(lineage(semi)))
    finally:
        os.environ.pop("SQLLINEAGE_TSQL_NO_SEMICOLON", None)
    print(json.dumps({"evaluations": evals, "distinct_nontrivial": len(distinct), "violations": fails, "input": fails[0] if fails else None}))
    return 1 if fails else 0


if __name__ == "__main__":
    sys.exit(main())
