"""Native small-scope search for C15 counterexamples: runs the REAL sqllineage.config object under run-time checked
clauses (the executable reading of contracts/config.py) over all operation sequences of a small scope.
Used (a) to replay a refuted obligation on the real code, (b) as a bounded cross-check of the contracts.
exit 1 + JSON witness on the last line if a clause fails, exit 0 otherwise.
"""
import itertools
import json
import sys
import threading

from sqllineage.config import _SQLLineageConfigLoader
from sqllineage.exceptions import ConfigException

KEYS = ["DEFAULT_SCHEMA", "TSQL_NO_SEMICOLON", "DIRECTORY", "LATERAL_COLUMN_ALIAS_REFERENCE"]
VALS = {"DEFAULT_SCHEMA": ["s1", ""], "TSQL_NO_SEMICOLON": [True, "no", None], "DIRECTORY": ["/d"], "LATERAL_COLUMN_ALIAS_REFERENCE": ["1"]}
BOGUS = "NO_SUCH_KEY"


def kw_space():
    out = [{}]
    for k in KEYS[:2]:
        for v in VALS[k]:
            out.append({k: v})
    out.append({"DEFAULT_SCHEMA": "s1", "TSQL_NO_SEMICOLON": True})
    # unknown key alone, after a valid key, before a valid key (dict order is insertion order)
    out.append({BOGUS: 1})
    out.append({"DEFAULT_SCHEMA": "s2", BOGUS: 1})
    out.append({BOGUS: 1, "DEFAULT_SCHEMA": "s2"})
    out.append({"TSQL_NO_SEMICOLON": None, "DEFAULT_SCHEMA": "s3"})
    out.append({"DEFAULT_SCHEMA": "s3", "TSQL_NO_SEMICOLON": None})
    return out


def view(cfg):
    """what reads of this thread observe: the override part for every key, plus scope membership"""
    tid = cfg.get_ident()
    return {k: cfg._thread_config.get(tid, {}).get(k) for k in KEYS}, (tid in cfg._thread_in_context_manager)


def reads(cfg):
    out = {}
    for k in KEYS:
        try:
            out[k] = getattr(cfg, k)
        except Exception as e:  # parse errors of a stored value cannot happen: values are parsed on store
            out[k] = ("raised", type(e).__name__)
    return out


class Fail(Exception):
    def __init__(self, clause, **info):
        self.clause, self.info = clause, info


def op_call(cfg, kw):
    before = view(cfg)
    try:
        r = cfg(**kw)
    except ConfigException:
        after = view(cfg)
        if after != before:
            raise Fail("raises.ConfigException.ensures.rejected_is_noop", op="call", kwargs=kw, before=before, after=after)
        if not (BOGUS in kw or before[1]):
            raise Fail("raises.ConfigException.when", op="call", kwargs=kw)
        return "rejected"
    except Exception as e:
        after = view(cfg)
        if after != before:
            raise Fail("raises.*.ensures.failed_is_noop", op="call", kwargs=kw, before=before, after=after, exc=type(e).__name__)
        return "failed"
    if BOGUS in kw:
        raise Fail("ensures.no_unknown_key", op="call", kwargs=kw)
    if before[1]:
        raise Fail("ensures.not_nested", op="call", kwargs=kw)
    if r is not cfg:
        raise Fail("ensures.returns_self", op="call", kwargs=kw)
    after = view(cfg)
    for k in KEYS:
        if k in kw:
            want = cfg.parse_value(kw[k], cfg.config[k][0])
            if after[0][k] != want:
                raise Fail("ensures.stored", op="call", kwargs=kw, key=k, got=after[0][k], want=want)
            if type(after[0][k]) is not cfg.config[k][0]:
                raise Fail("ensures.bool_key_gives_bool" if cfg.config[k][0] is bool else "ensures.str_key_gives_str", key=k, got=repr(after[0][k]))
        elif after[0][k] != before[0][k]:
            raise Fail("ensures.kept", op="call", kwargs=kw, key=k)
    if after[1] != before[1]:
        raise Fail("ensures.ctx_same", op="call", kwargs=kw)
    return "ok"


def op_enter(cfg):
    before = view(cfg)
    try:
        cfg.__enter__()
    except ConfigException:
        if view(cfg) != before:
            raise Fail("raises.ConfigException.ensures.rejected_is_noop", op="enter")
        if not before[1]:
            raise Fail("raises.ConfigException.when", op="enter")
        return "rejected"
    if before[1]:
        raise Fail("raises.ConfigException.exact", op="enter")
    after = view(cfg)
    if not after[1]:
        raise Fail("ensures.marks_scope", op="enter")
    if after[0] != before[0]:
        raise Fail("ensures.cfg_same", op="enter")
    return "ok"


def op_exit(cfg):
    r = cfg.__exit__(None, None, None)
    after = view(cfg)
    if any(v is not None for v in after[0].values()) or cfg.get_ident() in cfg._thread_config:
        raise Fail("ensures.overrides_cleared", op="exit")
    if after[1]:
        raise Fail("ensures.scope_closed", op="exit")
    if r:
        raise Fail("ensures.does_not_swallow", op="exit")
    return "ok"


def op_setattr(cfg, key):
    before = view(cfg)
    try:
        setattr(cfg, key, "zzz")
    except ConfigException:
        if view(cfg) != before:
            raise Fail("raises.ConfigException.ensures.nothing_changes", op="setattr", key=key)
        if key not in cfg.config:
            raise Fail("raises.ConfigException.when", op="setattr", key=key)
        return "rejected"
    if key in cfg.config:
        raise Fail("raises.ConfigException.exact", op="setattr", key=key)
    return "ok"


def op_with(cfg, kw, inner=None, boom=False):
    """with cfg(**kw): [inner nested with] [raise]  -- the public protocol, exactly as users write it"""
    outside = reads(cfg)
    try:
        with cfg(**kw):
            inside = reads(cfg)
            for k in KEYS:
                if k in kw:
                    want = cfg.parse_value(kw[k], cfg.config[k][0])
                    if want is not None and inside[k] != want:
                        raise Fail("ensures.override_visible_inside", kwargs=kw, key=k, got=inside[k], want=want)
                elif inside[k] != outside[k]:
                    raise Fail("ensures.kept", kwargs=kw, key=k)
            # thread locality, seen from the other side: a thread WITHOUT a scope reads what this thread read outside
            seen = {}
            th = threading.Thread(target=lambda: seen.update(r=reads(cfg)))
            th.start()
            th.join()
            if seen.get("r") != outside:
                raise Fail("stable.override_invisible_to_threads_without_a_scope", kwargs=kw, other_thread_reads=seen.get("r"), want=outside)
            if inner is not None:
                try:
                    with cfg(**inner):
                        raise Fail("raises.ConfigException.exact", op="nested with accepted", outer=kw, inner=inner)
                except ConfigException:
                    pass
                again = reads(cfg)
                if again != inside:
                    raise Fail("ensures.rejected_nested_scope_is_noop", outer=kw, inner=inner, before=inside, after=again)
            if boom == "SystemExit":
                raise SystemExit(1)
            if boom == "GeneratorExit":
                raise GeneratorExit()
            if boom:
                raise KeyError("boom")
    except ConfigException:
        if reads(cfg) != outside or view(cfg)[1]:
            raise Fail("ensures.rejected_override_is_noop", kwargs=kw, before=outside, after=reads(cfg))
        return "rejected"
    except KeyError:
        pass
    except (SystemExit, GeneratorExit):
        pass  # leaving the scope by ANY exception restores (checked below)
    except Fail:
        raise
    except Exception:
        # a value that cannot be parsed (int(None)): the override attempt failed as a whole
        if reads(cfg) != outside or view(cfg)[1]:
            raise Fail("raises.*.ensures.failed_is_noop", kwargs=kw, before=outside, after=reads(cfg))
        return "failed"
    if reads(cfg) != outside:
        raise Fail("ensures.environment_or_default_after", kwargs=kw, before=outside, after=reads(cfg))
    tid = cfg.get_ident()
    if tid in cfg._thread_config or tid in cfg._thread_in_context_manager:
        raise Fail("ensures.scope_left_clean", kwargs=kw)
    return "ok"


def sequences(mode, depth):
    kws = kw_space()
    ops = []
    if mode in ("call", "protocol", "all"):
        ops += [("call", kw) for kw in kws]
    if mode in ("enter", "protocol", "all"):
        ops += [("enter",)]
    if mode in ("exit", "protocol", "all"):
        ops += [("exit",)]
    if mode in ("setattr", "all"):
        ops += [("setattr", k) for k in ("DEFAULT_SCHEMA", "_private", "TSQL_NO_SEMICOLON")]
    if mode in ("protocol", "all", "getattr", "parse"):
        ops += [("with", kw, None, False) for kw in kws] + [("with", kws[1], kw, False) for kw in kws[:8]] + [("with", kws[1], None, True), ("with", kws[5], kws[1], True), ("with", kws[1], None, "SystemExit"), ("with", kws[5], None, "GeneratorExit")]
    if mode in ("call", "enter", "exit"):
        ops += [("enter",), ("exit",), ("call", kws[1])]
    for d in range(1, depth + 1):
        yield from itertools.product(ops, repeat=d)


def run_seq(seq, other_thread=True):
    cfg = _SQLLineageConfigLoader()
    # another thread holds an open scope the whole time: its view must never change (thread locality)
    ready, done = threading.Event(), threading.Event()
    box = {}

    def other():
        cfg(DEFAULT_SCHEMA="other", TSQL_NO_SEMICOLON="yes").__enter__()
        box["before"] = (view(cfg), reads(cfg))
        ready.set()
        done.wait()
        box["after"] = (view(cfg), reads(cfg))
        cfg.__exit__(None, None, None)

    t = None
    if other_thread:
        t = threading.Thread(target=other)
        t.start()
        ready.wait()
    try:
        for op in seq:
            if op[0] == "call":
                op_call(cfg, op[1])
            elif op[0] == "enter":
                op_enter(cfg)
            elif op[0] == "exit":
                op_exit(cfg)
            elif op[0] == "setattr":
                op_setattr(cfg, op[1])
            elif op[0] == "with":
                if not view(cfg)[1] and cfg.get_ident() not in cfg._thread_config:
                    op_with(cfg, op[1], op[2], op[3])
    finally:
        if t is not None:
            done.set()
            t.join()
    if other_thread and box["before"] != box["after"]:
        raise Fail("stable.others_cfg", seq=[list(map(str, o)) for o in seq], before=str(box["before"]), after=str(box["after"]))


def main():
    mode = sys.argv[1] if len(sys.argv) > 1 else "all"
    clause = None
    depth = 2
    a = sys.argv[2:]
    while a:
        if a[0] == "--clause":
            clause = a[1]
            a = a[2:]
        elif a[0] == "--depth":
            depth = int(a[1])
            a = a[2:]
        else:
            a = a[1:]
    n = 0
    distinct = set()
    fails = []
    for seq in sequences(mode, depth):
        n += 1
        distinct.add(json.dumps(seq, default=str))
        try:
            run_seq(seq, other_thread=(len(seq) <= 2))
        except Fail as f:
            fails.append({"clause": f.clause, "sequence": [list(map(str, o)) for o in seq], "info": {k: str(v) for k, v in f.info.items()}})
            if len(fails) >= 3:
                break
    res = {"evaluations": n, "distinct_nontrivial": len(distinct), "violations": fails, "wanted_clause": clause, "input": fails[0] if fails else None}
    print(json.dumps(res))
    return 1 if fails else 0


if __name__ == "__main__":
    sys.exit(main())
