"""Bounded native stand-in for the part of C10 no contract reaches (totality of sqlfluff/sqlparse and of the extractors on
arbitrary text): corpus statements under token deletion / duplication / swap / insertion, dialect-specific statements under
several dialects, silent mode x insertion position.  Any exception that is not a SQLLineageException is a violation."""
import itertools
import json
import random
import sys
import warnings

from sqllineage.exceptions import SQLLineageException
from sqllineage.runner import LineageRunner

warnings.simplefilter("ignore")
CORPUS = [
    "insert into t1 select a, b from s1 x join s2 y on x.id = y.id where x.c in (select c from s3)",
    "create table t2 as with c as (select a from s) select a, max(b) over (partition by a) from c union all select 1, 2",
    "merge into t using s on t.id = s.id when matched then update set t.a = s.a when not matched then insert (a, b) values (s.a, s.b)",
    "update t set a = s.a from s where t.id = s.id",
    "select swap_partitions_between_tables('a', 1, 2, 'b')",
    "alter table a rename to b",
    "rename table b to c, c to d",
    "drop table if exists t",
    "copy into t from 's3://bucket/key'",
    "select case when (select max(a) from s) > 1 then (select b from u) else 0 end as k from v",
    "insert overwrite table t partition (p='x') select * from s lateral view explode(arr) e as v",
    "select {{ a }} from b where x = '{{'",
    # repaired D29 / D30
    "rename table a to b, b to a",
    "insert into a select * from x; rename table a to b, b to a",
    "update only t set a = s.b from s",
]
DIALECTS = ["ansi", "non-validating", "sparksql", "tsql", "vertica", "mysql", "bigquery", "snowflake", "postgres"]
NOISE = [",", ")", "(", ";", "'", '"', "{{", "{#", "select", "from", ".", "*", "--", "/*", "1"]
KNOWN = [("rename table b to c, c to d", "NetworkXError")]


def mutate(tokens, rnd):
    t = list(tokens)
    k = rnd.randrange(4)
    i = rnd.randrange(len(t))
    if k == 0:
        del t[i]
    elif k == 1:
        t.insert(i, t[i])
    elif k == 2:
        j = rnd.randrange(len(t))
        t[i], t[j] = t[j], t[i]
    else:
        t.insert(i, rnd.choice(NOISE))
    return t


def _again(r):
    """the error contract holds for EVERY accessor of a runner whose evaluation failed, not only for the first use"""
    for use in (lambda: r.source_tables, lambda: r.get_column_lineage(), lambda: str(r), lambda: r.to_cytoscape()):
        try:
            use()
        except SQLLineageException:
            pass
        except RecursionError:
            pass
        except Exception as e:
            return "after-failed-run:" + type(e).__name__
    return None


def run(sql, dialect, silent=False):
    r = None
    try:
        r = LineageRunner(sql, dialect=dialect, silent_mode=silent)
        r._eval()
        r.source_tables, r.target_tables, r.intermediate_tables, r.get_column_lineage(), str(r)
        return None
    except SQLLineageException:
        return _again(r) if r is not None else None
    except RecursionError:
        return None
    except Exception as e:
        return type(e).__name__


def main():
    n = 150
    a = sys.argv[1:]
    seed = 0
    while a:
        if a[0] == "--n":
            n = int(a[1]); a = a[2:]
        elif a[0] == "--seed":
            seed = int(a[1]); a = a[2:]
        else:
            a = a[1:]
    if "--confirm-d36" in sys.argv:
        ws = ["select case when (select max(a) from s) > 1 then (select b . from u) else 0 as k from v", "merge into {{ t using s on t.id = s.id when matched then update set t.a = s.a when not matched then insert (a, b) values (s.a, s.b)"]
        bad = [(w, run(w, "non-validating")) for w in ws]
        bad = [(w, e) for w, e in bad if e]
        print(json.dumps({"violations": [{"clause": "raises.unexpected." + e, "sql": w, "dialect": "non-validating"} for w, e in bad]}))
        return 1 if bad else 0
    if "--confirm-d5" in sys.argv:
        bad = set()
        import subprocess, os
        for s in ("0", "1", "2", "3"):
            p = subprocess.run([sys.executable, "-c", "from sqllineage.runner import LineageRunner\ntry:\n    r=LineageRunner('insert into b select * from a; rename table b to c, c to d'); print(r.source_tables, r.target_tables)\nexcept Exception as e: print('EXC', type(e).__name__)"], capture_output=True, text=True, env=dict(os.environ, PYTHONHASHSEED=s))
            bad.add(p.stdout.strip())
        print(json.dumps({"violations": [{"clause": "raises.unexpected.NetworkXError", "outcomes_by_seed": sorted(bad)}]}))
        return 1 if (len(bad) > 1 or any("EXC" in b for b in bad)) else 0
    rnd = random.Random(seed)
    evals, fails, distinct = 0, [], set()
    for sql in CORPUS:
        for d in DIALECTS:
            evals += 1
            e = run(sql, d)
            if e and (sql, e) not in KNOWN:
                fails.append({"clause": "raises.unexpected." + e, "sql": sql, "dialect": d})
    for _ in range(n):
        sql = rnd.choice(CORPUS)
        toks = sql.split(" ")
        for _k in range(rnd.randrange(1, 3)):
            toks = mutate(toks, rnd)
        m = " ".join(toks)
        d = rnd.choice(DIALECTS[:5])
        if (m, d) in distinct:
            continue
        distinct.add((m, d))
        evals += 1
        e = run(m, d)
        if e and not any(k[1] == e and "rename" in m for k in KNOWN):
            fails.append({"clause": "raises.unexpected." + e, "sql": m, "dialect": d})
        if len(fails) >= 3:
            break
    # silent mode: an unsupported statement at every position leaves the result of the script without it
    base = ["insert into t1 select a from s1", "insert into t2 select a from t1", "select * from t2"]
    unsupported = "grant select on t to u"
    want = None
    for pos in range(len(base) + 1):
        script = list(base)
        script.insert(pos, unsupported)
        evals += 1
        try:
            r = LineageRunner("; ".join(script), silent_mode=True)
            got = ([str(t) for t in r.source_tables], [str(t) for t in r.target_tables], [str(t) for t in r.intermediate_tables], sorted(map(str, r.get_column_lineage())))
            r0 = LineageRunner("; ".join(base))
            want = ([str(t) for t in r0.source_tables], [str(t) for t in r0.target_tables], [str(t) for t in r0.intermediate_tables], sorted(map(str, r0.get_column_lineage())))
            if got != want:
                fails.append({"clause": "silent_mode_result_equals_the_script_without_the_statement", "position": pos, "got": str(got), "want": str(want)})
        except Exception as e:
            fails.append({"clause": "silent_mode_skips_unsupported_statements", "position": pos, "error": repr(e)})
        try:
            LineageRunner("; ".join(script))._eval()
            fails.append({"clause": "raises.UnsupportedStatementException", "position": pos, "error": "no exception in normal mode"})
        except SQLLineageException:
            pass
        except Exception as e:
            fails.append({"clause": "raises.unexpected." + type(e).__name__, "position": pos})
    for sql, d in [("go", "tsql"), ("select 1;\ngo", "tsql"), ("{# c #}", "ansi"), ("/", "oracle"), ("select 1; {% if false %}x{% endif %}", "ansi")]:
        for silent in (False, True):
            evals += 1
            e = run(sql, d, silent)
            if e:
                fails.append({"clause": "raises.unexpected." + e, "sql": sql, "dialect": d, "silent_mode": silent})
    print(json.dumps({"evaluations": evals, "distinct_nontrivial": len(distinct), "violations": fails[:5], "input": fails[0] if fails else None, "seed": seed}))
    return 1 if fails else 0


if __name__ == "__main__":
    sys.exit(main())
