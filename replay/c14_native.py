"""Native bounded equivalence check for C14: analysing a script under default schema S (environment variable or scoped
override) equals analysing the script with every unqualified table written as S.name."""
import json
import os
import re
import sys

from sqllineage.config import SQLLineageConfig
from sqllineage.runner import LineageRunner
from sqllineage.utils.constant import LineageLevel

SCRIPTS = [
    ("insert into {t}tgt select a, b from {t}src", "ansi"),
    ("insert into {t}tgt select x.a from {t}src x join {t}dim d on x.id = d.id", "ansi"),
    ("insert into {t}tgt select a from {t}src; insert into {t}fin select a from {t}tgt", "ansi"),
    ("create table {t}tgt as select a from q.other o join {t}src s on o.id = s.id", "ansi"),
    # (a column qualifier that names a table outside FROM, `select foo.a from bar`, is left out: the extractors keep only the
    #  last qualifier part of a three-part column reference, so the textually qualified spelling cannot be expressed)
    ("insert into {t}tgt select a, b from {t}src", "non-validating"),
    ("insert into {t}tgt select a from {t}src; insert into {t}fin select a from {t}tgt", "non-validating"),
    ("select swap_partitions_between_tables('{t}staging', 1, 2, '{t}target')", "vertica"),
    ("select swap_partitions_between_tables('{t}staging', 1, 2, '{t}target')", "non-validating"),
]


def dump(sql, dialect):
    r = LineageRunner(sql, dialect=dialect)
    return (
        [str(t) for t in r.source_tables],
        [str(t) for t in r.target_tables],
        [str(t) for t in r.intermediate_tables],
        sorted((str(p[0]), str(p[-1])) for p in r.get_column_lineage()),
        sorted(json.dumps(e, sort_keys=True) for e in r.to_cytoscape() if "source" not in e["data"]),
    )


def main():
    fails, evals = [], 0
    for default in (None, "sx", "MiXed", "q"):
        for mech in ("env", "scope", "scope_over_env"):
            for tpl, dialect in SCRIPTS:
                if default is None and mech != "env":
                    continue
                evals += 1
                plain = tpl.format(t="")
                qualified = tpl.format(t=(default + ".") if default else "<default>.") if default else None
                os.environ.pop("SQLLINEAGE_DEFAULT_SCHEMA", None)
                if default is None:
                    got = dump(plain, dialect)
                    bad = [n for part in got[:3] for n in part if not n.startswith("<default>.") and not n.startswith("q.")]
                    if bad:
                        fails.append({"clause": "ensures.else_the_placeholder", "sql": plain, "dialect": dialect, "got": bad})
                    continue
                want = dump(qualified, dialect)
                if mech == "env":
                    os.environ["SQLLINEAGE_DEFAULT_SCHEMA"] = default
                    try:
                        got = dump(plain, dialect)
                    finally:
                        os.environ.pop("SQLLINEAGE_DEFAULT_SCHEMA", None)
                elif mech == "scope":
                    with SQLLineageConfig(DEFAULT_SCHEMA=default):
                        got = dump(plain, dialect)
                else:
                    # both mechanisms at once: the scoped override is the configured default while it is active
                    os.environ["SQLLINEAGE_DEFAULT_SCHEMA"] = "envschema"
                    try:
                        with SQLLineageConfig(DEFAULT_SCHEMA=default):
                            got = dump(plain, dialect)
                    finally:
                        os.environ.pop("SQLLINEAGE_DEFAULT_SCHEMA", None)
                if got != want:
                    fails.append({"clause": "ensures.else_the_default_schema_configured_at_call_time", "default": default, "mechanism": mech, "sql": plain, "dialect": dialect, "got": str(got)[:400], "want": str(want)[:400]})
                if len(fails) >= 3:
                    break
            if len(fails) >= 3:
                break
        if len(fails) >= 3:
            break
    print(json.dumps({"evaluations": evals, "distinct_nontrivial": evals, "violations": fails, "input": fails[0] if fails else None}))
    return 1 if fails else 0


if __name__ == "__main__":
    sys.exit(main())
