"""Bounded native check for C13 (metadata only refines column attribution).

Generated statements over schema-qualified tables x every assignment of (known with columns | unknown) to the tables in
scope x column-name overlap (none / partial) x both bundled providers (dict-backed, SQLAlchemy on in-memory sqlite) x
(ansi via sqlfluff, non-validating via sqlparse where the clause is implemented there).  The oracle is computed from the
knowledge assignment, not from the code under test.

  --thorough      more shapes (3 relations, sub-queries, CTEs, multi-statement scripts)
  --confirm-d20   re-run only the recorded input of known finding D20 and exit 1 iff it still fails
"""
import itertools
import json
import logging
import sys
import warnings

logging.disable(logging.CRITICAL)
warnings.filterwarnings("ignore")

from sqllineage.core.metadata.dummy import DummyMetaDataProvider
from sqllineage.runner import LineageRunner

COLS = {
    "none": {"s.a": ["id", "a1", "a2"], "s.b": ["bid", "b1"], "s.c": ["cid", "c1"], "s.o": ["zk", "ak"]},
    "partial": {"s.a": ["id", "x", "a2"], "s.b": ["id", "x", "b1"], "s.c": ["id", "c1"], "s.o": ["zk", "ak"]},
}
_sa_cache = {}


def sa_provider(meta):
    """SQLAlchemy provider over in-memory sqlite with the given tables (schemas attached as in-memory databases)"""
    from sqlalchemy import Column as C, Integer, MetaData, Table as T, text

    from sqllineage.core.metadata.sqlalchemy import SQLAlchemyMetaDataProvider

    key = json.dumps(meta, sort_keys=True)
    if key in _sa_cache:
        return _sa_cache[key]
    p = SQLAlchemyMetaDataProvider("sqlite:///:memory:", {"poolclass": __import__("sqlalchemy.pool", fromlist=["StaticPool"]).StaticPool})
    md = MetaData()
    schemas = sorted({k.split(".")[0] for k in meta} | {"s"})
    with p.engine.connect() as conn:
        for s in schemas:
            conn.execute(text(f"ATTACH DATABASE ':memory:' AS '{s}'"))
    for full, cols in meta.items():
        s, t = full.split(".")
        T(t, md, *[C(c, Integer) for c in cols], schema=s)
    md.create_all(bind=p.engine)
    _sa_cache[key] = p
    return p


def run(sql, meta, provider_kind, dialect):
    kw = {"dialect": dialect}
    if meta is not None:
        kw["metadata_provider"] = DummyMetaDataProvider(meta) if provider_kind == "dict" else sa_provider(meta)
    r = LineageRunner(sql, **kw)
    cols = sorted({(str(p[0]), str(p[-1])) for p in r.get_column_lineage()})
    tabs = {k: sorted(str(t) for t in getattr(r, k + "_tables")) for k in ("source", "target", "intermediate")}
    return tabs, cols


DIALECTS_FOR = {"positional_overwrite": ("sparksql", "hive")}


def cases(thorough):
    """(name, sql, tables in scope, oracle(known: dict table->cols) -> (clause, expected pairs or None))"""
    out = []

    def star_one(known):
        if "s.a" in known:
            return "star_expands_to_exactly_the_known_columns", sorted((f"s.a.{c}", f"s.o.{c}") for c in known["s.a"])
        return "unknown_tables_answer_as_without_metadata", None

    out.append(("star1", "insert into s.o select * from s.a", ["s.a"], star_one))
    out.append(("star1_ctas", "create table s.o as select * from s.a", ["s.a"], star_one))

    def star_qual(known):
        exp = []
        for t, al in (("s.a", "x"), ("s.b", "y")):
            if t in known:
                exp += [(f"{t}.{c}", f"s.o.{c}") for c in known[t]]
            else:
                exp += [(f"{t}.*", "s.o.*")]
        if not known:
            return "unknown_tables_answer_as_without_metadata", None
        return "star_expands_to_exactly_the_known_columns", None if len(known) < 2 and False else sorted(set(exp))

    out.append(("star_qual2", "insert into s.o select x.*, y.* from s.a x join s.b y on x.id = y.id", ["s.a", "s.b"], star_qual))

    def unq(col, tabs):
        def oracle(known):
            listing = [t for t in tabs if t in known and col in known[t]]
            if listing:
                # exactly the in-scope tables whose metadata lists the column, whatever else is unknown
                return "unqualified_column_attributed_to_exactly_the_listing_tables", sorted((f"{t}.{col}", f"s.o.{col}") for t in listing)
            # nobody lists it: nothing to refine, the answer is the one without metadata (unresolved, with candidates)
            return "unknown_tables_answer_as_without_metadata", None

        return oracle

    for col in ("a2", "x", "b1"):
        out.append((f"unq2_{col}", f"insert into s.o select {col} from s.a x join s.b y on x.id = y.id", ["s.a", "s.b"], unq(col, ["s.a", "s.b"])))
    if thorough:
        for col in ("a2", "x", "c1", "id"):
            out.append((f"unq3_{col}", f"insert into s.o select {col} from s.a x join s.b y on x.id = y.id join s.c z on x.id = z.id", ["s.a", "s.b", "s.c"], unq(col, ["s.a", "s.b", "s.c"])))

    def positional(known):
        if "s.o" in known:
            return "insert_positions_named_by_known_target_columns", sorted([("s.a.id", "s.o." + known["s.o"][0]), ("s.a.a2", "s.o." + known["s.o"][1])])
        return "unknown_tables_answer_as_without_metadata", None

    out.append(("positional", "insert into s.o select id as p, a2 as q from s.a", ["s.o", "s.a"], positional))

    def explicit(known):
        return "explicit_column_list_always_wins", sorted([("s.a.id", "s.o.e1"), ("s.a.a2", "s.o.e2")])

    out.append(("explicit", "insert into s.o (e1, e2) select id as p, a2 as q from s.a", ["s.o", "s.a"], explicit))
    def positional_union(known):
        if "s.o" in known:
            z, a = known["s.o"][0], known["s.o"][1]
            return "insert_positions_named_by_known_target_columns", sorted([("s.a.id", "s.o." + z), ("s.a.a2", "s.o." + a), ("s.b.bid", "s.o." + z), ("s.b.b1", "s.o." + a)])
        return "unknown_tables_answer_as_without_metadata", None

    out.append(("positional_union", "insert into s.o select id as p, a2 as q from s.a union all select bid, b1 from s.b", ["s.o", "s.a"], positional_union))
    out.append(("explicit_union", "insert into s.o (e1, e2) select id as p, a2 as q from s.a union all select bid, b1 from s.b", ["s.o", "s.a"],
                lambda known: ("explicit_column_list_always_wins", sorted([("s.a.id", "s.o.e1"), ("s.a.a2", "s.o.e2"), ("s.b.bid", "s.o.e1"), ("s.b.b1", "s.o.e2")]))))
    out.append(("positional_overwrite", "insert overwrite table s.o select id as p, a2 as q from s.a", ["s.o", "s.a"], positional))
    # CREATE TABLE AS defines its own columns: metadata about the target never renames them
    out.append(("ctas_keeps_its_names", "create table s.o as select id as p, a2 as q from s.a", ["s.o", "s.a"], lambda known: ("ctas_target_columns_are_the_select_names", sorted([("s.a.id", "s.o.p"), ("s.a.a2", "s.o.q")]))))
    if True:
        out.append(("star_subq", "insert into s.o select * from (select id, a2 from s.a) t", ["s.a"], lambda known: ("subquery_columns_do_not_need_metadata", sorted([("s.a.id", "s.o.id"), ("s.a.a2", "s.o.a2")]))))
        out.append(("star_cte", "insert into s.o with t as (select * from s.a) select * from t", ["s.a"], star_one))
    return out


KNOWN_D20 = "insert into s.o values (1, 2); drop table s.o"
# multi-statement / table-level scripts: metadata must never change table-level lineage (column level is compared for
# single statements only: a table written earlier in the script is known to later statements through the session, C04)
TABLE_LEVEL = [
    "insert into s.o select * from s.a",
    "insert into s.o select a2 from s.a x join s.b y on x.id = y.id",
    "insert into s.o select id, a2 from s.a; insert into s.p select * from s.o",
    "create table s.o as select * from s.a; drop table s.o",
    "insert into s.o values (1, 2); drop table s.o",
    "insert into s.o select * from s.a; alter table s.o rename to s.p",
    "select * from s.a",
    "insert into s.o select id from s.a; insert into s.a select o1 from s.o",
    "insert into o select * from a",
]


def main():
    thorough = "--thorough" in sys.argv
    d20 = "--confirm-d20" in sys.argv
    confirm = "<none>" if d20 else None
    fails, evals, distinct = [], 0, set()
    providers = ("dict", "sqlalchemy")
    for overlap, universe in COLS.items():
        for name, sql, tabs, oracle in cases(thorough):
            for r in range(len(tabs) + 1):
                for known_tabs in itertools.combinations(tabs, r):
                    known = {t: universe[t] for t in known_tabs}
                    # an always-known bystander keeps the provider truthy when nothing in scope is known
                    meta = dict(known, **{"zz.other": ["q"]})
                    for dialect in DIALECTS_FOR.get(name, ("ansi", "non-validating")):
                        if dialect == "non-validating" and name in ("positional", "explicit", "positional_union", "explicit_union"):
                            continue  # target-column naming from metadata is implemented by the sqlfluff extractors only
                        base = run(sql, None, None, dialect)
                        for pk in providers:
                            cid = f"{name}/{overlap}/{'+'.join(known_tabs) or '-'}/{pk}/{dialect}"
                            if confirm and confirm != cid:
                                continue
                            evals += 1
                            got = run(sql, meta, pk, dialect)
                            distinct.add(json.dumps(got))
                            clause, exp = oracle(known)
                            if got[0] != base[0]:
                                fails.append({"id": cid, "clause": "metadata_never_changes_table_level_lineage", "sql": sql, "metadata": meta, "got": got[0], "want": base[0]})
                                continue
                            if exp is None:
                                if clause == "unknown_tables_answer_as_without_metadata" and got != base:
                                    fails.append({"id": cid, "clause": clause, "sql": sql, "metadata": meta, "got": got[1], "want": base[1]})
                            elif isinstance(exp, tuple):
                                bad = [p for p in got[1] if p[0] in exp[1]]
                                if bad:
                                    fails.append({"id": cid, "clause": clause, "sql": sql, "metadata": meta, "got": got[1], "forbidden_sources": exp[1]})
                            elif [list(p) for p in exp] != [list(p) for p in got[1]]:
                                fails.append({"id": cid, "clause": clause, "sql": sql, "metadata": meta, "got": got[1], "want": exp})
    # table level: every script x every knowledge assignment (incl. the empty provider and an unrelated one)
    for sql in TABLE_LEVEL:
        tabs = [t for t in ("s.a", "s.b", "s.o") if t.split(".")[1] in sql.replace("s.", " ")]
        for dialect in ("ansi", "non-validating"):
            base = run(sql, None, None, dialect)
            for r in range(len(tabs) + 1):
                for known_tabs in itertools.combinations(tabs, r):
                    meta = {t: COLS["none"][t] for t in known_tabs}
                    for extra in ({}, {"zz.other": ["q"]}):
                        m = dict(meta, **extra)
                        for pk in providers:
                            cid = f"table/{TABLE_LEVEL.index(sql)}/{'+'.join(known_tabs) or '-'}/{'x' if extra else ''}/{pk}/{dialect}"
                            is_d20 = sql == KNOWN_D20 and "s.o" in known_tabs and dialect == "ansi"
                            if is_d20 != d20:
                                continue  # the recorded witness family of known finding D20 is run by --confirm-d20 only
                            evals += 1
                            got = run(sql, m, pk, dialect)
                            if got[0] != base[0]:
                                fails.append({"id": cid, "clause": "metadata_never_changes_table_level_lineage", "sql": sql, "metadata": m, "got": got[0], "want": base[0]})
                            elif not known_tabs and ";" not in sql and got != base:
                                fails.append({"id": cid, "clause": "unknown_tables_answer_as_without_metadata", "sql": sql, "metadata": m, "got": got[1], "want": base[1]})
    # without a provider nothing is looked up anywhere (the un-refined answer is the reference of every comparison above)
    if not d20:
        evals += 1
        got = run(TABLE_LEVEL[2], None, None, "ansi")[1]
        want = [("s.a.a2", "s.o.a2"), ("s.a.id", "s.o.id"), ("s.o.*", "s.p.*")]
        if [tuple(p) for p in got] != want:
            fails.append({"id": "baseline/no-provider", "clause": "without_metadata_nothing_is_looked_up", "sql": TABLE_LEVEL[2], "metadata": None, "got": got, "want": want})
    # two providers of the same class must not share what they learned (each answers from its own catalog)
    if not confirm:
        evals += 1
        p1 = sa_provider({"s.a": ["id", "a1"]})
        run("insert into s.o select * from s.a", {"s.a": ["id", "a1"]}, "sqlalchemy", "ansi")
        empty = {"zz.other": ["q"]}
        got = run("insert into s.o select * from s.a", empty, "sqlalchemy", "ansi")
        base = run("insert into s.o select * from s.a", None, None, "ansi")
        if got != base:
            fails.append({"id": "isolation/sqlalchemy", "clause": "unknown_tables_answer_as_without_metadata", "sql": "insert into s.o select * from s.a", "metadata": empty, "got": got[1], "want": base[1], "note": "a second SQLAlchemy provider whose database lacks s.a answered with the columns the first provider reflected"})
    if not confirm:
        # two in-scope tables with the SAME bare name in different schemas: a column listed by one of them only goes to that one
        twin = {"raw.orders": ["oid", "amount"], "dw.orders": ["oid", "total"], "dw.customers": ["cid"]}
        for col, owner in (("amount", "raw.orders"), ("total", "dw.orders")):
            for frm in ("raw.orders r join dw.orders d on r.oid = d.oid", "dw.orders d join raw.orders r on r.oid = d.oid"):
                for pk in providers:
                    evals += 1
                    sql = f"insert into s.o select {col} from {frm}"
                    got = run(sql, twin, pk, "ansi")[1]
                    want = [(f"{owner}.{col}", f"s.o.{col}")]
                    if [tuple(p) for p in got] != want:
                        fails.append({"id": f"twin/{col}/{pk}", "clause": "unqualified_column_attributed_to_exactly_the_listing_tables", "sql": sql, "metadata": twin, "got": got, "want": want})
        # a provider that served a run which FAILED part-way answers the next run as a fresh one: what that run learned about
        # a table the catalog does not know is forgotten, so the table is unknown again
        for pk in providers:
            evals += 1
            meta = {"zz.other": ["q"]}
            prov = DummyMetaDataProvider(meta) if pk == "dict" else sa_provider(meta)
            try:
                r0 = LineageRunner("create table stg.scratch as select id, amount from s.a; select from where", metadata_provider=prov)
                r0.source_tables
            except Exception:
                pass
            r1 = LineageRunner("insert into s.o select * from stg.scratch", metadata_provider=prov)
            got = sorted({(str(p[0]), str(p[-1])) for p in r1.get_column_lineage()})
            base = run("insert into s.o select * from stg.scratch", None, None, "ansi")[1]
            if got != base:
                fails.append({"id": f"after_failed_run/{pk}", "clause": "unknown_tables_answer_as_without_metadata", "sql": "insert into s.o select * from stg.scratch (after a failed run that created stg.scratch)", "metadata": meta, "got": got, "want": base})
    print(json.dumps({"evaluations": evals, "distinct_nontrivial": len(distinct), "violations": fails[:60], "input": fails[0] if fails else None}))
    return 1 if fails else 0


if __name__ == "__main__":
    sys.exit(main())
