"""Bounded native check for C04 (column lineage chains across statements).

Scripts of 2-4 generated statements in which every later statement reads an earlier target; the per-statement dataflow is
known by construction, the oracle is the relational composition computed here (not by the code under test).
Chain shape x per-step column pattern is enumerated exhaustively up to the bound; with and without a metadata provider;
ansi (sqlfluff) and non-validating (sqlparse).

  --thorough   chains up to length 4 with all patterns (quick: length <= 3), more diamond / re-creation scripts
"""
import itertools
import json
import logging
import sys
import warnings

logging.disable(logging.CRITICAL)
warnings.filterwarnings("ignore")

from sqllineage.core.metadata.dummy import DummyMetaDataProvider  # noqa: E402
from sqllineage.runner import LineageRunner  # noqa: E402

BASE = ["a", "b", "c"]
PATTERNS = ("same", "rename", "expr", "drop", "star")


def step(pattern, prev_cols, i):
    """(select list text, new column names, flow: new column -> set of prev columns)"""
    if pattern == "same":
        return ", ".join(prev_cols), list(prev_cols), {c: {c} for c in prev_cols}
    if pattern == "rename":
        new = [f"r{i}_{k}" for k in range(len(prev_cols))]
        return ", ".join(f"{p} as {n}" for p, n in zip(prev_cols, new)), new, {n: {p} for p, n in zip(prev_cols, new)}
    if pattern == "expr":
        if len(prev_cols) < 2:
            return None
        s = f"s{i}"
        return f"{prev_cols[0]} + {prev_cols[1]} as {s}, {prev_cols[0]}", [s, prev_cols[0]], {s: {prev_cols[0], prev_cols[1]}, prev_cols[0]: {prev_cols[0]}}
    if pattern == "drop":
        return prev_cols[0], [prev_cols[0]], {prev_cols[0]: {prev_cols[0]}}
    if pattern == "star":
        return "*", list(prev_cols), {c: {c} for c in prev_cols}
    raise ValueError(pattern)


def chain(patterns, provider):
    """build the script and the expected end-to-end (first, last) pairs"""
    cols = {0: list(BASE)}
    ultimate = {0: {c: {c} for c in BASE}}
    used = {}
    stmts = []
    for i, p in enumerate(patterns, start=1):
        if p == "star" and (i == 1 or not provider):
            return None  # SELECT * is expanded only over a table the session knows, with a provider in use
        r = step(p, cols[i - 1], i)
        if r is None:
            return None
        text, new, flow = r
        stmts.append(f"insert into s.t{i} select {text} from s.t{i - 1}")
        cols[i] = new
        ultimate[i] = {n: set().union(*[ultimate[i - 1][q] for q in flow[n]]) for n in new}
        used[i - 1] = set().union(*flow.values())
    last = len(patterns)
    exp = set()
    for i in range(1, last + 1):
        for c in cols[i]:
            if i == last or c not in used.get(i, set()):
                for s in ultimate[i][c]:
                    exp.add((f"s.t0.{s}", f"s.t{i}.{c}"))
    return "; ".join(stmts), sorted(exp), cols


EXTRA = [
    # the second statement of a chain writes its columns through a UNION whose first-branch names are not alphabetical
    ("create table s.t1 as select b, a from s.t0 union all select h, i from s.u0; insert into s.t2 select b, a from s.t1", None,
     [("s.t0.b", "s.t2.b"), ("s.t0.a", "s.t2.a"), ("s.u0.h", "s.t2.b"), ("s.u0.i", "s.t2.a")]),
    ("insert into s.t1 select c from s.t0; create table s.t2 as select c as z, c as y from s.t1 union all select h, i from s.u0; insert into s.t3 select z from s.t2; insert into s.t4 select z from s.t3", {"zz.other": ["q"]},
     [("s.t0.c", "s.t4.z"), ("s.u0.h", "s.t4.z"), ("s.t0.c", "s.t2.y"), ("s.u0.i", "s.t2.y")]),
    # an unqualified column defined by TWO tables created earlier (JOIN ... USING): both chains run end to end
    ("create table s.t1 as select id, a from s.t0; create table s.t2 as select id, b from s.u0; insert into s.t3 select id, a, b from s.t1 join s.t2 using (id)", None,
     [("s.t0.id", "s.t3.id"), ("s.u0.id", "s.t3.id"), ("s.t0.a", "s.t3.a"), ("s.u0.b", "s.t3.b")]),
    ("create table s.t1 as select id, a from s.t0; create table s.t2 as select id, b from s.u0; insert into s.t3 select id, a, b from s.t1 join s.t2 using (id)", {"zz.other": ["q"]},
     [("s.t0.id", "s.t3.id"), ("s.u0.id", "s.t3.id"), ("s.t0.a", "s.t3.a"), ("s.u0.b", "s.t3.b")]),
    # the middle table is defined twice with different columns: later statements see the LATEST definition
    ("create table s.t1 as select a from s.t0; create or replace table s.t1 as select b, c from s.u0; insert into s.t2 select * from s.t1", {"zz.other": ["q"]},
     [("s.u0.b", "s.t2.b"), ("s.u0.c", "s.t2.c"), ("s.t0.a", "s.t1.a")]),
    # ONE unqualified column of a table created earlier feeds TWO output columns of a join (every such use is resolved late)
    ("insert into s.t1 select k, v from s.t0; insert into s.t2 select k as a, k + 1 as b, v from s.t1 join s.u on t1.k = u.k2", None,
     [("s.t0.k", "s.t2.a"), ("s.t0.k", "s.t2.b"), ("s.t0.v", "s.t2.v")]),
    ("insert into s.t1 select k, v from s.t0; insert into s.t2 select k as a, k + 1 as b, v from s.t1 join s.u on t1.k = u.k2", {"zz.other": ["q"]},
     [("s.t0.k", "s.t2.a"), ("s.t0.k", "s.t2.b"), ("s.t0.v", "s.t2.v")]),
    # diamond: both branches meet again
    ("insert into s.t1 select a, b from s.t0; insert into s.t2 select a as x from s.t1; insert into s.t3 select b as y from s.t1; insert into s.t4 select t2.x, t3.y from s.t2 join s.t3 on t2.x = t3.y", None,
     [("s.t0.a", "s.t4.x"), ("s.t0.b", "s.t4.y")]),
    # an unqualified column that the table created earlier defines is attributed to it (provider in use)
    ("insert into s.t1 select a as k1, b as v1 from s.t0; insert into s.t2 select v1 from s.t1 join s.u on t1.k1 = u.k1", {"zz.other": ["q"]},
     [("s.t0.a", "s.t1.k1"), ("s.t0.b", "s.t2.v1")]),
    # re-creation in the script wins over the catalog: the session knows the columns the script gave the table
    ("create table s.t1 as select a as n1, b as n2 from s.t0; insert into s.t2 select * from s.t1", {"s.t1": ["old1", "old2", "old3"]},
     [("s.t0.a", "s.t2.n1"), ("s.t0.b", "s.t2.n2")]),
    # a column added by a self-referencing statement is known afterwards
    ("insert into s.t1 select a, b from s.t0; insert into s.t2 select * from s.t1", {"zz.other": ["q"]},
     [("s.t0.a", "s.t2.a"), ("s.t0.b", "s.t2.b")]),
    # a column that a self-referencing statement adds is known afterwards
    ("insert into s.t1 select a, b from s.t0; insert into s.t1 select t1.a, t1.b, u.z from s.t1 join s.u on t1.a = u.a; insert into s.t2 select * from s.t1", {"zz.other": ["q"]},
     [("s.t0.a", "s.t2.a"), ("s.t0.b", "s.t2.b"), ("s.u.z", "s.t2.z")]),
    # SELECT * over a table built by SELECT * from an unknown table keeps the wildcard hop
    ("insert into s.t1 select * from s.t0; insert into s.t2 select * from s.t1", {"zz.other": ["q"]},
     [("s.t0.*", "s.t2.*")]),
]


def run(sql, provider, dialect):
    kw = {"dialect": dialect}
    if provider is not None:
        kw["metadata_provider"] = DummyMetaDataProvider(provider)
    r = LineageRunner(sql, **kw)
    paths = r.get_column_lineage()
    pairs = sorted({(str(p[0]), str(p[-1])) for p in paths})
    return pairs, paths


def main():
    thorough = "--thorough" in sys.argv
    fails, evals, nontrivial = [], 0, set()
    maxlen = 4 if thorough else 3
    for n in range(2, maxlen + 1):
        for pats in itertools.product(PATTERNS, repeat=n):
            for provider in (None, {"zz.other": ["q"]}):
                c = chain(pats, provider)
                if c is None:
                    continue
                sql, exp, cols = c
                for dialect in ("ansi", "non-validating"):
                    evals += 1
                    try:
                        got, paths = run(sql, provider, dialect)
                    except Exception as e:
                        fails.append({"clause": "analysis_completes", "sql": sql, "error": repr(e)[:200], "dialect": dialect})
                        continue
                    nontrivial.add(json.dumps(got))
                    if [list(p) for p in exp] != [list(p) for p in got]:
                        fails.append({"clause": "end_to_end_pairs_equal_the_composition_of_the_statement_dataflows", "sql": sql, "metadata": provider, "dialect": dialect, "got": got, "want": exp})
                        continue
                    # every path runs through the intermediate tables' columns, one hop per statement it crosses
                    for p in paths:
                        names = [str(x) for x in p]
                        tabs = [x.rsplit(".", 1)[0] for x in names]
                        idx = [int(t[3:]) for t in tabs if t.startswith("s.t")]
                        if idx != list(range(idx[0], idx[-1] + 1)) or len(idx) != len(names):
                            fails.append({"clause": "paths_run_end_to_end_through_the_intermediate_columns", "sql": sql, "metadata": provider, "dialect": dialect, "path": names})
                            break
    for sql, provider, exp in EXTRA:
        for dialect in ("ansi", "non-validating"):
            evals += 1
            try:
                got, _ = run(sql, provider, dialect)
            except Exception as e:
                fails.append({"clause": "analysis_completes", "sql": sql, "error": repr(e)[:200], "dialect": dialect})
                continue
            if [list(p) for p in sorted(exp)] != [list(p) for p in got]:
                fails.append({"clause": "columns_of_a_table_created_earlier_are_known_to_later_statements", "sql": sql, "metadata": provider, "dialect": dialect, "got": got, "want": sorted(exp)})
    print(json.dumps({"evaluations": evals, "distinct_nontrivial": len(nontrivial), "violations": fails[:30], "n_violations": len(fails), "input": fails[0] if fails else None}))
    return 1 if fails else 0


if __name__ == "__main__":
    sys.exit(main())
