"""Bounded native check for C08: every generated statement x every injective renaming of its statement-local names (table
aliases, derived-table aliases, CTE names) from an adversarial pool, with / without the AS keyword, with the alias removed
where the reference stays unambiguous.  The end-to-end pairs must equal the construction-time oracle under every renaming
(and therefore each other).

  --thorough   larger pool (keyword-like names, more clashes) and three-relation scopes
"""
import copy
import itertools
import json
import logging
import sys
import warnings

logging.disable(logging.CRITICAL)
warnings.filterwarnings("ignore")

import gen_stmt  # noqa: E402

from sqllineage.runner import LineageRunner  # noqa: E402

POOL_QUICK = ["q1", "tb", "TC", "MiXed"]  # tb / TC: equal to another table's bare name (one in a different letter case)
POOL_THOROUGH = POOL_QUICK + ["ta", "data", "value", "tgt", "s1"]


def renamings(st, pool):
    names = []
    for r in st.rels:
        for n in (r.alias, r.inner_alias):
            if n and n not in names:
                names.append(n)
    if not names:
        return
    allp = list(itertools.permutations(pool, len(names)))
    if len(allp) > 40:
        # bounded: a seeded sample of 40 injective renamings per statement (all of them when there are fewer)
        import random

        allp = random.Random(len(names) * 1000 + len(pool)).sample(allp, 40)
    for new in allp:
        yield dict(zip(names, new))


def apply(st, ren, as_kw=True, drop_alias=False):
    st2 = copy.deepcopy(st)
    for r in st2.rels:
        if r.alias:
            r.alias = ren.get(r.alias, r.alias)
        if r.inner_alias:
            r.inner_alias = ren.get(r.inner_alias, r.inner_alias)
        r.as_kw = as_kw
        if drop_alias and r.kind == "table":
            r.alias = None
    return st2


# sibling / nested scopes: the same local name may be reused in scopes that do not see each other
SIBLINGS = [
    # same column name on both sides: only the owner keeps the two inner columns apart
    ("insert into s1.tgt select {X}.id as xa, {Y}.id as yb from (select {A}.id from (select id from s1.ta) {A}) {X} join (select {B}.id from (select id from s1.tb) {B}) {Y} on {X}.id = {Y}.id",
     {("s1.ta.id", "s1.tgt.xa"), ("s1.tb.id", "s1.tgt.yb")}),
    ("insert into s1.tgt select {X}.a1 as xa, {Y}.b1 as yb from (select {A}.a1, {A}.id from (select a1, id from s1.ta) {A}) {X} join (select {B}.b1, {B}.id from (select b1, id from s1.tb) {B}) {Y} on {X}.id = {Y}.id",
     {("s1.ta.a1", "s1.tgt.xa"), ("s1.tb.b1", "s1.tgt.yb")}),
    ("insert into s1.tgt select {X}.a1 as xa from (select {A}.a1 from s1.ta {A}) {X} union all select {Y}.b1 from (select {B}.b1 from s1.tb {B}) {Y}",
     {("s1.ta.a1", "s1.tgt.xa"), ("s1.tb.b1", "s1.tgt.xa")}),
    ("insert into s1.tgt with {X} as (select {A}.a1 from s1.ta {A}), {Y} as (select {B}.b1 from s1.tb {B}) select {X}.a1 as xa, {Y}.b1 as yb from {X} cross join {Y}",
     {("s1.ta.a1", "s1.tgt.xa"), ("s1.tb.b1", "s1.tgt.yb")}),
]


# one scope reads the same relation twice (names in ONE scope must differ: A != B, and differ from X)
SAME_SCOPE = [
    ("insert into s1.tgt with {X} as (select a1, id from s1.ta) select {A}.a1 as xa, {B}.a1 as yb from {X} {A} join {X} {B} on {A}.id = {B}.id",
     {("s1.ta.a1", "s1.tgt.xa"), ("s1.ta.a1", "s1.tgt.yb")}),
    ("insert into s1.tgt with {X} as (select a1, id from s1.ta) select {X}.a1 as xa, {B}.a1 as yb from {X} join {X} {B} on {X}.id = {B}.id",
     {("s1.ta.a1", "s1.tgt.xa"), ("s1.ta.a1", "s1.tgt.yb")}),
    ("insert into s1.tgt select {A}.a1 as xa, {B}.a2 as yb from s1.ta {A} join s1.ta {B} on {A}.id = {B}.id",
     {("s1.ta.a1", "s1.tgt.xa"), ("s1.ta.a2", "s1.tgt.yb")}),
]
# set operations whose branches re-read the same relation under the same exposed name (or under none)
BRANCHES = [
    ("insert into s1.tgt select {X}.a1 as xa from s1.ta {X} union all select {Y}.b1 from s1.tb {Y} union all select {X}.a2 from s1.ta {X}",
     {("s1.ta.a1", "s1.tgt.xa"), ("s1.tb.b1", "s1.tgt.xa"), ("s1.ta.a2", "s1.tgt.xa")}),
    ("insert into s1.tgt select {X}.a1 as xa from s1.ta {X} union all select {X}.a2 from s1.ta {X}",
     {("s1.ta.a1", "s1.tgt.xa"), ("s1.ta.a2", "s1.tgt.xa")}),
    ("insert into s1.tgt with {X} as (select a1, a2 from s1.ta) select {X}.a1 as xa from {X} union all select b1 from s1.tb union all select {X}.a2 from {X}",
     {("s1.ta.a1", "s1.tgt.xa"), ("s1.tb.b1", "s1.tgt.xa"), ("s1.ta.a2", "s1.tgt.xa")}),
]
# a table alias that is spelled like a CTE of the same statement which the FROM clause does not read (the alias wins)
CTE_CLASH = [
    ("with {X} as (select a1 from s1.ta) insert into s1.tgt select {A}.b1 as xa from s1.tb {A}", {("s1.tb.b1", "s1.tgt.xa")}),
    ("with {X} as (select a1 from s1.ta) insert into s1.tgt select {A}.b1 as xa from s1.tb as {A}", {("s1.tb.b1", "s1.tgt.xa")}),
]
NOALIAS = [
    ("insert into s1.tgt select ta.a1 as xa from s1.ta union all select tb.b1 from s1.tb union all select ta.a2 from s1.ta",
     {("s1.ta.a1", "s1.tgt.xa"), ("s1.tb.b1", "s1.tgt.xa"), ("s1.ta.a2", "s1.tgt.xa")}),
    ("insert into s1.tgt select a1 as xa from s1.ta union all select a2 from s1.ta",
     {("s1.ta.a1", "s1.tgt.xa"), ("s1.ta.a2", "s1.tgt.xa")}),
]


# two tables with the same bare name in different schemas; the first is the qualifier of the reference, with or without alias
TWINS = [
    ("insert into s1.tgt select t.c from s1.t join s2.t as {X} on t.id = {X}.id", {("s1.t.c", "s1.tgt.c")}),
    ("insert into s1.tgt select {Y}.c from s1.t as {Y} join s2.t as {X} on {Y}.id = {X}.id", {("s1.t.c", "s1.tgt.c")}),
    ("insert into s1.tgt select {X}.c from s1.t join s2.t as {X} on t.id = {X}.id", {("s2.t.c", "s1.tgt.c")}),
]
# UPDATE ... FROM a derived table joined with a real table: the alias INSIDE the derived table is local to it, whatever it is
# spelled like (incl. the bare name or the alias of the outer table)
UPDATES = [
    ("update tgt set x = t3.y from (select {A}.y, {A}.id from t2 as {A}) as s join t3 on s.id = t3.id", {("<default>.t3.y", "<default>.tgt.x")}),
    ("update tgt set x = b.y from (select {A}.y, {A}.id from t2 as {A}) as s join t3 as b on s.id = b.id", {("<default>.t3.y", "<default>.tgt.x")}),
]


def sibling_cases(pool):
    for k, (tpl, exp) in enumerate(TWINS):
        for x, y in itertools.permutations(["x", "y", "q1", "Xy"], 2):
            yield f"twins{k}/X={x},Y={y}", tpl.format(X=x, Y=y), exp
    for k, (tpl, exp) in enumerate(UPDATES):
        for a in ("a", "Qz", "t3", "b", "s2"):
            yield f"update{k}/A={a}/ansi-only", tpl.format(A=a), exp
    for k, (tpl, exp) in enumerate(SAME_SCOPE):
        for x in ("c", "q1", "tb", "Cte"):
            for a, b in itertools.permutations(["c1", "c2", "i", "tb", "Q"], 2):
                if len({x.lower(), a.lower(), b.lower()}) == 3:
                    yield f"samescope{k}/X={x},A={a},B={b}", tpl.format(X=x, A=a, B=b), exp
    for k, (tpl, exp) in enumerate(BRANCHES):
        for x, y in itertools.permutations(["x", "y", "q1", "tb", "Xy"], 2):
            yield f"branches{k}/X={x},Y={y}", tpl.format(X=x, Y=y), exp
    for k, (tpl, exp) in enumerate(CTE_CLASH):
        for x in ("c", "q1", "Cte"):
            for a in ("z", x, x.upper()):
                yield f"cteclash{k}/X={x},A={a}", tpl.format(X=x, A=a), exp
    for k, (tpl, exp) in enumerate(NOALIAS):
        yield f"noalias{k}", tpl, exp
    for k, (tpl, exp) in enumerate(SIBLINGS):
        for x, y in itertools.permutations(["x", "y", "q1", "tb"], 2):
            for a, b in itertools.product(["i", "j", "sq", x if k != 2 else "sq"], repeat=2):
                # inner names may coincide with each other (sibling scopes) but not with the enclosing alias of their own scope
                if False:
                    pass
                yield f"sibling{k}/X={x},Y={y},A={a},B={b}", tpl.format(X=x, Y=y, A=a, B=b), exp


# D28 (shared with C06): the sqlparse analyzer does not take a word that sqlparse lexes as a keyword (`data`, `catalog`)
# as an alias.  Witness family: every renaming TO `data` under non-validating; confirmed by --confirm D28.
def is_d28(tag, dialect):
    return dialect == "non-validating" and "->data" in tag


def main():
    thorough = "--thorough" in sys.argv
    if "--confirm" in sys.argv:
        sql = "insert into s1.tgt select data.a1 from s1.ta data"
        r = LineageRunner(sql, dialect="non-validating")
        got = {(str(p[0]), str(p[-1])) for p in r.get_column_lineage()}
        bad = got != {("s1.ta.a1", "s1.tgt.a1")}
        print(json.dumps({"violations": [{"clause": "end_to_end_column_pairs_unchanged_by_renaming", "sql": sql, "got": sorted(got)}] if bad else []}))
        return 1 if bad else 0
    pool = POOL_THOROUGH if thorough else POOL_QUICK
    fails, evals, nontrivial = [], 0, set()
    for name, st in gen_stmt.statements():
        if "/list" in name or (not thorough and name.startswith("join3")):
            continue
        kind = name.split("/")[1]
        if not thorough and kind not in ("col", "func", "unqualified"):
            continue
        exp = st.expected()
        variants = [("as-is", st)]
        for ren in renamings(st, pool):
            tag = ",".join(f"{k}->{v}" for k, v in ren.items())
            variants.append((tag, apply(st, ren)))
            variants.append((tag + " no-AS", apply(st, ren, as_kw=False)))
        variants.append(("alias removed", apply(st, {}, drop_alias=True)))
        for tag, v in variants:
            # a renaming must stay non-clashing INSIDE the statement: skip alias == bare name of a relation in the same scope
            bare = {r.table.split(".")[1].lower() for r in v.rels if r.kind == "table" and not r.alias}
            aliases = [a.lower() for r in v.rels for a in (r.alias,) if a]
            if len(set(aliases)) != len(aliases) or bare & set(aliases):
                continue
            if any(r.inner_alias and r.alias and r.inner_alias.lower() == r.alias.lower() for r in v.rels) and False:
                continue
            sql = v.sql()
            for dialect in ("ansi", "non-validating"):
                if is_d28(tag, dialect):
                    continue
                if dialect == "non-validating" and kind == "window2" and len(v.rels) > 1:
                    continue  # D33 (known finding of C02, confirmed there): sqlparse analyzer loses the qualifier before DESC
                evals += 1
                try:
                    r = LineageRunner(sql, dialect=dialect)
                    got = {(str(p[0]), str(p[-1])) for p in r.get_column_lineage()}
                    tabs = (sorted(str(t) for t in r.source_tables), sorted(str(t) for t in r.target_tables), sorted(str(t) for t in r.intermediate_tables))
                except Exception as e:
                    fails.append({"id": f"{name}/{tag}/{dialect}", "clause": "analysis_completes", "sql": sql, "error": repr(e)[:200]})
                    continue
                nontrivial.add(sql)
                want_tabs = (sorted({r_.table for r_ in v.rels}), [v.target], [])
                if got != v.expected() or v.expected() != exp:
                    fails.append({"id": f"{name}/{tag}/{dialect}", "clause": "end_to_end_column_pairs_unchanged_by_renaming", "sql": sql, "dialect": dialect, "renaming": tag, "got": sorted(got), "want": sorted(exp)})
                elif tabs != want_tabs:
                    fails.append({"id": f"{name}/{tag}/{dialect}", "clause": "tables_unchanged_by_renaming", "sql": sql, "dialect": dialect, "renaming": tag, "got": tabs, "want": want_tabs})
    for cid, sql, exp in sibling_cases(pool):
        for dialect in ("ansi", "non-validating"):
            if dialect == "non-validating" and cid.endswith("/ansi-only"):
                continue  # UPDATE ... FROM is analysed by the sqlfluff extractors only
            evals += 1
            try:
                r = LineageRunner(sql, dialect=dialect)
                got = {(str(p[0]), str(p[-1])) for p in r.get_column_lineage()}
            except Exception as e:
                fails.append({"id": f"{cid}/{dialect}", "clause": "analysis_completes", "sql": sql, "error": repr(e)[:200], "renaming": cid})
                continue
            if got != exp:
                fails.append({"id": f"{cid}/{dialect}", "clause": "end_to_end_column_pairs_unchanged_by_renaming", "sql": sql, "dialect": dialect, "renaming": cid, "got": sorted(got), "want": sorted(exp)})
    by = {}
    for f in fails:
        by.setdefault((f["clause"], f.get("renaming", "").split(" ")[0]), f)
    print(json.dumps({"evaluations": evals, "distinct_nontrivial": len(nontrivial), "violations": list(by.values())[:30], "n_violations": len(fails), "input": fails[0] if fails else None}))
    return 1 if fails else 0


if __name__ == "__main__":
    sys.exit(main())
