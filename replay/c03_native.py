"""Native bounded cross-check / replay for C03: every history of <= n abstract statements over a 3-table universe is built
with the repository's own holders (add_read/add_write/add_drop/add_rename), assembled by the REAL SQLLineageHolder.of, and
compared with the executable reading of the step contract of contracts/holders.py (plain / drop / single-pair rename) and
of the role predicates."""
import itertools
import json
import sys

from sqllineage.core.holders import SQLLineageHolder, StatementLineageHolder
from sqllineage.core.metadata.dummy import DummyMetaDataProvider
from sqllineage.core.models import Table

T = ["a", "b", "c"]


def statements():
    out = []
    for r in range(8):
        reads = [T[i] for i in range(3) if r >> i & 1]
        for w in [None] + T:
            out.append(("plain", tuple(reads), w))
    for t in T:
        out.append(("drop", t))
    for x in T:
        for y in T:
            if x != y:
                out.append(("rename", x, y))
    return out


def build(stmt):
    h = StatementLineageHolder()
    if stmt[0] == "plain":
        for r in stmt[1]:
            h.add_read(Table(r))
        if stmt[2]:
            h.add_write(Table(stmt[2]))
    elif stmt[0] == "drop":
        h.add_drop(Table(stmt[1]))
    else:
        h.add_rename(Table(stmt[1]), Table(stmt[2]))
    return h


class Ref:
    """executable reading of the step contract on the table view, plus 'touched' = has a non-table incident edge"""

    def __init__(self):
        self.nodes, self.edges, self.so, self.to, self.touched = set(), set(), set(), set(), set()

    def step(self, s):
        if s[0] == "plain":
            reads, w = set(s[1]), ({s[2]} if s[2] else set())
            self.nodes |= reads | w
            self.touched |= reads  # reading leaves an alias edge on the table
            if reads and not w:
                self.so |= reads
            elif w and not reads:
                self.to |= w
            else:
                self.edges |= {(r, x) for r in reads for x in w}
        elif s[0] == "drop":
            t = s[1]
            # the dropped table is a node of the composed graph; it leaves iff it has no incident edge of any kind
            self.nodes.add(t)
            if not any(t in e for e in self.edges) and t not in self.touched:
                self.nodes.discard(t)
                self.so.discard(t)
                self.to.discard(t)
        else:
            x, y = s[1], s[2]
            had_self = (x, x) in self.edges
            ren = lambda n: y if n == x else n
            self.edges = {(ren(u), ren(v)) for u, v in self.edges}
            self.edges.discard((y, y))  # the rename edge itself (and, known imprecision, a self loop of x)
            tags_from_x = (x in self.so, x in self.to)
            self.nodes.discard(x)
            self.nodes.add(y)
            if x in self.touched:
                self.touched.discard(x)
                self.touched.add(y)
            self.so.discard(x)
            self.to.discard(x)
            self.ambiguous_tags = {y}
            if not any(y in e for e in self.edges) and y not in self.touched:
                self.nodes.discard(y)
            return had_self
        return False

    def roles(self):
        ins = {v for u, v in self.edges}
        outs = {u for u, v in self.edges}
        loops = {u for u, v in self.edges if u == v}
        src = {t for t in self.nodes if t in outs and t not in ins} | (self.so & self.nodes) | loops
        tgt = {t for t in self.nodes if t in ins and t not in outs} | (self.to & self.nodes) | loops
        mid = {t for t in self.nodes if t in ins and t in outs} - loops
        return src, tgt, mid


def observe(hist):
    holder = SQLLineageHolder.of(DummyMetaDataProvider(), *[build(s) for s in hist])
    g = holder.table_lineage_graph
    name = lambda t: t.raw_name
    return (
        {name(t) for t in holder.source_tables},
        {name(t) for t in holder.target_tables},
        {name(t) for t in holder.intermediate_tables},
        {(name(u), name(v)) for u, v in g.edges},
        {name(t) for t in g.nodes},
    )


def main():
    n = 2
    a = sys.argv[1:]
    while a:
        if a[0] == "--n":
            n = int(a[1]); a = a[2:]
        else:
            a = a[1:]
    S = statements()
    evals, nontrivial, fails, skipped = 0, 0, [], 0
    # plus: every 3-statement history of simple plain statements (at most one read, at most one write): roles need three
    # cooperating statements (x->t, t->y, read-only t) that 2-statement histories cannot express
    simple = [s for s in S if s[0] == "plain" and len(s[1]) <= 1]
    spaces = [itertools.product(S, repeat=length) for length in range(1, n + 1)]
    if n < 3:
        spaces.append(itertools.product(simple, repeat=3))
    for space in spaces:
        for hist in space:
            ref = Ref()
            inexact = False
            for s in hist:
                if s[0] == "rename":
                    # the contract is exact when y is new and x has no self loop / summary tags (else: documented imprecision)
                    if s[2] in ref.nodes or (s[1], s[1]) in ref.edges or s[1] in ref.so or s[1] in ref.to or s[1] not in ref.nodes:
                        inexact = True
                ref.step(s)
            if inexact:
                skipped += 1
                continue
            evals += 1
            try:
                src, tgt, mid, edges, nodes = observe(hist)
            except Exception as e:
                fails.append({"clause": "raises.unexpected." + type(e).__name__, "history": [list(map(str, s)) for s in hist]})
                continue
            if len(set(hist)) == len(hist) and any(s[0] != "plain" or (s[1] and s[2]) for s in hist):
                nontrivial += 1
            want = ref.roles()
            got = {"source": src, "target": tgt, "intermediate": mid, "edges": edges, "nodes": nodes}
            exp = {"source": want[0], "target": want[1], "intermediate": want[2], "edges": ref.edges, "nodes": ref.nodes}
            for k in ("edges", "nodes", "source", "target", "intermediate"):
                if got[k] != exp[k]:
                    kind = hist[-1][0]
                    clause = {"edges": f"loop0.step.{kind}", "nodes": f"loop0.step.{kind}", "source": "ensures.source_role", "target": "ensures.target_role", "intermediate": "ensures.intermediate_role"}[k]
                    fails.append({"clause": clause, "what": k, "history": [list(map(str, s)) for s in hist], "got": sorted(map(str, got[k])), "want": sorted(map(str, exp[k]))})
                    break
            if len(fails) >= 3:
                break
        if len(fails) >= 3:
            break
    print(json.dumps({"evaluations": evals, "distinct_nontrivial": nontrivial, "skipped_outside_exact_rename_contract": skipped, "violations": fails, "input": fails[0] if fails else None}))
    return 1 if fails else 0


if __name__ == "__main__":
    sys.exit(main())
