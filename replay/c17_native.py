"""Native enumeration for C17 against the real WSGI app (bounded cross-check of the path model, and replay).
A scratch tree with marker files is created under a temp dir; every path over the segment alphabet is sent through every
route; a response that contains a marker from OUTSIDE the allowed root (or lists an outside directory) is a violation."""
import itertools
import json
import os
import shutil
import sys
import tempfile
from io import BytesIO
from pathlib import Path

import logging

import sqllineage

logging.disable(logging.CRITICAL)
from sqllineage import drawing
from sqllineage.drawing import app


def request(method, path, body=None):
    st = {}

    def sr(status, headers):
        st["s"] = status

    env = {"REQUEST_METHOD": method, "PATH_INFO": path}
    if body is not None:
        b = json.dumps(body).encode()
        env["CONTENT_LENGTH"] = str(len(b))
        env["wsgi.input"] = BytesIO(b)
    try:
        out = app(env, sr)
    except Exception as e:
        return "EXC " + type(e).__name__, b""
    return st.get("s", ""), b"".join(x if isinstance(x, bytes) else str(x).encode() for x in out)


def main():
    nseg = 3
    a = sys.argv[1:]
    while a:
        if a[0] == "--segments":
            nseg = int(a[1]); a = a[2:]
        else:
            a = a[1:]
    base = os.path.realpath(tempfile.mkdtemp(prefix="c17_"))
    fails, evals, distinct = [], 0, set()
    try:
        root = os.path.join(base, "root")
        for d in ("root/child/nested", "root_sib", "outside"):
            os.makedirs(os.path.join(base, d))
        inside_marks, outside_marks = [], []
        for rel, where in (("root/in.sql", "in"), ("root/child/in2.sql", "in"), ("root/child/nested/in3.sql", "in"), ("root_sib/secret.sql", "out"), ("outside/secret.sql", "out"), ("top_secret.sql", "out")):
            mark = "MARK_" + rel.replace("/", "_")
            with open(os.path.join(base, rel), "w") as f:
                f.write("select '" + mark + "' from t")
            (inside_marks if where == "in" else outside_marks).append(mark)
        outside_names = {"root_sib", "outside", "top_secret.sql", "secret.sql"}
        # static folder for GET: a scratch build dir next to the package is not writable in general -> point STATIC at scratch
        static = os.path.join(base, "static_pkg", "build")
        os.makedirs(static)
        open(os.path.join(static, "index.html"), "w").write("INDEX")
        open(os.path.join(static, "ok.js"), "w").write("STATIC_OK")
        open(os.path.join(base, "static_pkg", "pkg_secret.py"), "w").write("MARK_pkg_secret")
        outside_marks.append("MARK_pkg_secret")
        real_dirname = drawing.os.path.dirname
        drawing.os.path.dirname = lambda p: os.path.join(base, "static_pkg") if p == drawing.__file__ else real_dirname(p)
        app.root_path = Path(root)
        alphabet = ["..", ".", "child", "child/nested", "../root_sib", "../outside", "in.sql", "", "secret.sql", "top_secret.sql"]
        old_cwd = os.getcwd()
        os.chdir(root)
        for n in range(1, nseg + 1):
            for segs in itertools.product(alphabet, repeat=n):
                rel = "/".join(segs)
                for form in (rel, os.path.join(root, rel), "/" + rel if n == 1 else None):
                    if form is None or form in distinct:
                        continue
                    distinct.add(form)
                    probes = [("POST", "/script", {"f": form}), ("POST", "/directory", {"f": form}), ("POST", "/directory", {"d": form}), ("POST", "/lineage", {"f": form}), ("POST", "/script", {"d": root, "f": form})]
                    if n <= 2:
                        probes += [("GET", "/" + rel, None), ("GET", "//" + os.path.join(base, rel).lstrip("/"), None), ("GET", "/../" + rel, None), ("PUT", "/" + rel, None)]
                    for method, route, body in probes:
                        evals += 1
                        status, out = request(method, route, body)
                        text = out.decode("utf-8", "replace")
                        leaked = [m for m in outside_marks if m in text]
                        listed = []
                        if route == "/directory" and status.startswith("200"):
                            try:
                                data = json.loads(text)
                                listed_dir = os.path.realpath(os.path.join(root, data["id"]))
                                if not (listed_dir == root or listed_dir.startswith(root + os.sep)):
                                    listed = [data["id"]]
                            except Exception:
                                pass
                        if leaked or listed:
                            clause = "ensures.get_touches_only_the_static_folder" if method == "GET" else "ensures.post_touches_only_the_sql_root"
                            fails.append({"clause": clause, "method": method, "route": route, "body": body, "status": status, "leaked": leaked, "listed_outside": listed})
                        if method == "PUT" and not status.startswith("405"):
                            fails.append({"clause": "ensures.unknown_methods_get_405", "method": method, "route": route, "status": status})
                        if status[:3] in ("403", "404", "405") and any(m in text for m in inside_marks + outside_marks):
                            fails.append({"clause": "ensures.refusals_have_constant_bodies", "method": method, "route": route, "body": body, "status": status})
                        if len(fails) >= 3:
                            break
                    if len(fails) >= 3:
                        break
                if len(fails) >= 3:
                    break
            if len(fails) >= 3:
                break
        # (b) the server's working directory is NOT the root: relative spellings must be judged as they are opened
        workdir = os.path.join(base, "workdir")
        os.makedirs(os.path.join(workdir, "sub"))
        open(os.path.join(workdir, "wd_secret.sql"), "w").write("select 'MARK_wd_secret' from t")
        open(os.path.join(workdir, "sub", "hidden_entry.sql"), "w").write("select 1")
        outside_marks.append("MARK_wd_secret")
        os.chdir(workdir)
        extra = []
        for form in ("wd_secret.sql", "./wd_secret.sql", "sub/../wd_secret.sql"):
            extra += [("POST", "/script", {"f": form}), ("POST", "/lineage", {"f": form}), ("POST", "/directory", {"f": form})]
        extra += [("POST", "/directory", {"d": "."}), ("POST", "/directory", {"d": "sub"})]
        # (c) percent-encoded spellings of '.' and '/' in a GET path (one level of encoding reaches the app object)
        for enc in ("/%2e%2e/pkg_secret.py", "/.%2e/pkg_secret.py", "/%2e./pkg_secret.py", "/%2e%2e%2fpkg_secret.py", "/..%2fpkg_secret.py", "/%2E%2E/pkg_secret.py"):
            extra.append(("GET", enc, None))
        for method, route, body in extra if len(fails) < 3 else []:
            evals += 1
            status, out = request(method, route, body)
            text = out.decode("utf-8", "replace")
            leaked = [m for m in outside_marks if m in text]
            listed = "hidden_entry" in text or "wd_secret" in text and route == "/directory"
            if leaked or listed:
                clause = "ensures.get_touches_only_the_static_folder" if method == "GET" else "ensures.post_touches_only_the_sql_root"
                fails.append({"clause": clause, "method": method, "route": route, "body": body, "status": status, "leaked": leaked, "cwd": "a directory outside the root"})
        os.chdir(old_cwd)
        drawing.os.path.dirname = real_dirname
    finally:
        shutil.rmtree(base, ignore_errors=True)
    print(json.dumps({"evaluations": evals, "distinct_nontrivial": len(distinct), "violations": fails, "input": fails[0] if fails else None}))
    return 1 if fails else 0


if __name__ == "__main__":
    sys.exit(main())
