"""Bounded native stand-in for the STRING clauses of C16/C14 that the SMT back ends do not decide (str.strip / str.lower are
uninterpreted in the proof): the real escape_identifier_name and the real model classes against the executable reading of
the contract clauses, exhaustively over all strings up to a length bound over a small alphabet; plus end-to-end chaining of
spellings through LineageRunner."""
import itertools
import json
import sys

from sqllineage.config import SQLLineageConfig
from sqllineage.core.models import Column, Path, Schema, SubQuery, Table
from sqllineage.exceptions import SQLLineageException
from sqllineage.runner import LineageRunner
from sqllineage.utils.helpers import escape_identifier_name as esc

ALPHABET = ["`", '"', "'", "[", "]", ".", "A", "b", "_", "1"]
QUOTES = ["`", '"', "'"]


def strings(n):
    for k in range(0, n + 1):
        for t in itertools.product(ALPHABET, repeat=k):
            yield "".join(t)


def main():
    n = 5
    a = sys.argv[1:]
    while a:
        if a[0] == "--len":
            n = int(a[1]); a = a[2:]
        else:
            a = a[1:]
    fails, evals, nontrivial = [], 0, 0

    def bad(clause, **kw):
        if len(fails) < 5:
            fails.append(dict(clause=clause, **{k: repr(v) for k, v in kw.items()}))

    for s in strings(n):
        evals += 1
        r = esc(s)
        quoted = any(q in s for q in QUOTES)
        bracketed = s.startswith("[") and s.endswith("]")
        if quoted or bracketed:
            nontrivial += 1
        # executable reading of contracts/models.py
        if not quoted and not bracketed and r != s.lower():
            bad("ensures.unquoted_identifiers_fold_to_lower_case", name=s, got=r)
        if not quoted and bracketed and r != s.strip("[]"):
            bad("ensures.bracketed_identifiers_lose_only_the_brackets", name=s, got=r)
        if quoted and r != s.strip("`").strip('"').strip("'"):
            bad("ensures.quoted_identifiers_are_stripped_not_folded", name=s, got=r)
        # the property's own wording
        body = s
        if not any(c in body for c in QUOTES + ["[", "]"]):
            for q in QUOTES:
                if esc(q + body + q) != body:
                    bad("quoted_identifier_keeps_case_and_loses_only_the_quotes", name=q + body + q, got=esc(q + body + q))
            if esc("[" + body + "]") != body.strip("[]") or (body and esc("[" + body + "]") != body):
                bad("bracketed_identifier_keeps_case", name="[" + body + "]", got=esc("[" + body + "]"))
            if esc(body) != esc(body.upper()) or esc(body) != esc(body.lower()):
                bad("unquoted_identifiers_compare_case_insensitively", name=body)
        # models: a dotted name splits at its LAST dot, at most two qualifier parts
        if s and not quoted:
            try:
                t = Table(s)
                if "." in s:
                    head, tail = s.rsplit(".", 1)
                    if t.raw_name != esc(tail) or (head and t.schema.raw_name != esc(head)):
                        bad("ensures.dotted_name_splits_at_its_last_dot", name=s, got=str(t))
                    if len(head.split(".")) > 2:
                        bad("raises.SQLLineageException.exact", name=s)
                else:
                    if t.raw_name != esc(s) or str(t.schema) != "<default>":
                        bad("ensures.undotted_name_is_normalised", name=s, got=str(t))
                t2 = Table(s)
                if not (t == t2 and hash(t) == hash(t2)):
                    bad("equal_entities_hash_equally", name=s)
            except SQLLineageException:
                if not ("." in s and len(s.rsplit(".", 1)[0].split(".")) > 2):
                    bad("raises.SQLLineageException.when", name=s)
    # equality / hash across classes
    objs = [Schema("a"), Schema("A"), Schema("b"), Table("a"), Table("A"), Table("x.a"), Table("X.A"), Path("a"), Path("A"), SubQuery(None, "q", "a"), SubQuery(None, "q", "b"), SubQuery(None, "Q", "a"), Column("a"), Column("A"), Column("b")]
    for x in objs:
        for y in objs:
            evals += 1
            if (x == y) and hash(x) != hash(y):
                bad("equal_entities_hash_equally", x=x, y=y)
            if (x == y) != (y == x):
                bad("equality_is_symmetric", x=x, y=y)
            if type(x) is not type(y) and x == y:
                bad("equal_iff_same_class_and_same_printed_name", x=x, y=y)
    # end to end: a name written under one spelling is found again when read under the same / a case-variant unquoted spelling
    spell = [("tab", "tab"), ("Tab", "TAB"), ("tab", "TAB"), ('"tab"', "tab"), ("`tab`", "tab"), ("s.tab", "S.TAB"), ('"s"."tab"', "s.tab")]
    for w, r_ in spell:
        evals += 1
        for dialect in ("ansi", "non-validating") if "`" not in w else ("mysql",):
            lr = LineageRunner(f"insert into {w} select a, b from src; insert into fin select a, b from {r_}", dialect=dialect)
            if [str(t) for t in lr.intermediate_tables] != [("s.tab" if "." in w else "<default>.tab")]:
                bad("same_spelling_denotes_the_same_table_across_statements", written=w, read=r_, dialect=dialect, got=[str(t) for t in lr.intermediate_tables])
            ends = {(str(p[0]), str(p[-1])) for p in lr.get_column_lineage()}
            if ("<default>.src.a", "<default>.fin.a") not in ends:
                bad("column_chain_through_the_intermediate_table", written=w, read=r_, dialect=dialect, got=sorted(ends))
    for cw, cr in [("col", "COL"), ("Col", "col"), ('"col"', "col")]:
        evals += 1
        lr = LineageRunner(f"insert into t select {cw} from s; insert into u select {cr} from t")
        ends = {(str(p[0]), str(p[-1])) for p in lr.get_column_lineage()}
        if ("<default>.s.col", "<default>.u.col") not in ends:
            bad("a_column_written_under_one_spelling_is_found_again", written=cw, read=cr, got=sorted(ends))
    # a quoted mixed-case LAST part of a dotted name keeps its case (and is a different table from the folded spelling)
    for dialect, q in (("ansi", '"MyTab"'), ("mysql", "`MyTab`"), ("tsql", "[MyTab]"), ("bigquery", "`MyTab`")):
        for prefix in ("s.", "db.s."):
            evals += 1
            lr = LineageRunner(f"insert into {prefix}{q} select a from {prefix}mytab", dialect=dialect)
            got = ([str(t) for t in lr.source_tables], [str(t) for t in lr.target_tables])
            if got != ([prefix + "mytab"], [prefix + "MyTab"]):
                bad("quoted_identifiers_are_stripped_not_folded", dialect=dialect, written=prefix + q, got=got)
    # three-part names with quoted LOWER-case parts (so the known double normalisation of qualifiers cannot interfere): quotes
    # are lost part by part, wherever the name occurs
    for dialect, (l, r_) in (("ansi", ('"', '"')), ("mysql", ("`", "`")), ("tsql", ("[", "]"))):
        for parts in (("db", "sch", "tab"),):
            for quoted_idx in ((0,), (1,), (0, 1), (0, 1, 2)):
                evals += 1
                name = ".".join((l + p_ + r_) if i in quoted_idx else p_ for i, p_ in enumerate(parts))
                lr = LineageRunner(f"insert into {name} select a from src; insert into fin select a from {name}", dialect=dialect)
                got = [str(t) for t in lr.intermediate_tables]
                if got != ["db.sch.tab"]:
                    bad("a_dotted_name_loses_only_its_quotes_part_by_part", dialect=dialect, written=name, got=got)
    # a quoted mixed-case ALIAS keeps its case wherever it is used: as alias of a table / derived table / CTE reference and as
    # qualifier of a column reference, it denotes the same relation
    for dialect, q in (("ansi", '"Xy"'), ("mysql", "`Xy`"), ("tsql", "[Xy]")):
        for frm, want in ((f"tab as {q}", "<default>.tab.a"), (f"(select a from tab) as {q}", "<default>.tab.a"), (f"tab {q} join other o on o.id = {q}.id", "<default>.tab.a")):
            evals += 1
            lr = LineageRunner(f"insert into tgt select {q}.a from {frm}", dialect=dialect)
            ends = {(str(p[0]), str(p[-1])) for p in lr.get_column_lineage()}
            if (want, "<default>.tgt.a") not in ends or len(ends) != 1:
                bad("an_alias_spelled_the_same_way_denotes_the_same_relation", dialect=dialect, sql=f"insert into tgt select {q}.a from {frm}", got=sorted(ends))
        evals += 1
        lr = LineageRunner(f"insert into tgt with c as (select a from tab) select {q}.a from c as {q}", dialect=dialect)
        ends = {(str(p[0]), str(p[-1])) for p in lr.get_column_lineage()}
        if ("<default>.tab.a", "<default>.tgt.a") not in ends or len(ends) != 1:
            bad("an_alias_spelled_the_same_way_denotes_the_same_relation", dialect=dialect, sql="cte reference with quoted alias", got=sorted(ends))
    # equality and hashing agree for the same text in different letter case / quoting (list and set membership coincide)
    for x, y in [(Table('"MyTab"'), Table("mytab")), (Table('s."MyTab"'), Table("s.mytab")), (Column('"Ab"'), Column("ab"))]:
        evals += 1
        if (x in [y]) != (x in {y}):
            bad("equal_entities_hash_equally", x=x, y=y)
    if "--confirm-d13" in sys.argv:
        lr = LineageRunner('insert into t select "Ab" from s; insert into u select "Ab" from t')
        ends = {(str(p[0]), str(p[-1])) for p in lr.get_column_lineage()}
        broken = ("<default>.s.Ab", "<default>.u.Ab") not in ends
        lr2 = LineageRunner('insert into "Sch"."Tab" select a from s')
        broken2 = [str(t) for t in lr2.target_tables] != ["Sch.Tab"]
        print(json.dumps({"violations": [{"clause": "normalised_exactly_once", "chain_broken": broken, "quoted_schema_folded": broken2, "paths": sorted(map(str, ends)), "targets": [str(t) for t in lr2.target_tables]}]}))
        return 1 if (broken or broken2) else 0
    print(json.dumps({"evaluations": evals, "distinct_nontrivial": nontrivial, "violations": fails, "input": fails[0] if fails else None, "alphabet": ALPHABET, "max_len": n}))
    return 1 if fails else 0


if __name__ == "__main__":
    sys.exit(main())
