"""Generator of data-moving statements with a construction-time oracle (C02, C07, C08).

A statement is built from a semantic description, so the expected (source column -> target column) pairs are known without
looking at the analyzer: relations in scope (base table | derived table | CTE, each with an optional alias), select items
(expression kind over column references, optional alias), optional explicit target column list, optional set operation.
"""
import itertools

BASE = {"s1.ta": ["a1", "a2", "id"], "s1.tb": ["b1", "b2", "id"], "s1.tc": ["c1", "id"]}
KINDS = ("col", "alias", "func", "case", "cast", "arith", "window", "case3", "nested", "window2", "paren")


class Rel:
    def __init__(self, kind, table, alias=None, inner_alias=None, as_kw=True):
        self.kind, self.table, self.alias, self.inner_alias, self.as_kw = kind, table, alias, inner_alias, as_kw
        self.cols = BASE[table]

    fullqual = False  # spell references as schema.table.column (only for an un-aliased base table)

    def qual(self):
        if self.fullqual and not self.alias:
            return self.table
        return self.alias or self.table.split(".")[1]

    def from_text(self):
        kw = " as " if self.as_kw else " "
        if self.kind == "table":
            return self.table + (kw + self.alias if self.alias else "")
        if self.kind == "derived":
            ia = self.inner_alias
            inner = f"select {', '.join((ia + '.' if ia else '') + c for c in self.cols)} from {self.table}" + (f" {ia}" if ia else "")
            return f"({inner}){kw}{self.alias}"
        if self.kind == "derived2":
            inner = f"select {', '.join(self.cols)} from (select {', '.join(self.cols)} from {self.table}) {self.inner_alias or 'i2'}"
            return f"({inner}){kw}{self.alias}"
        if self.kind in ("cte", "cte2"):
            return self.alias  # defined in the WITH clause
        raise ValueError(self.kind)

    def with_text(self):
        if self.kind == "cte2":
            # a CTE defined from another CTE
            return f"{self.alias}0 as (select {', '.join(self.cols)} from {self.table}), {self.alias} as (select {', '.join(self.cols)} from {self.alias}0)"
        return f"{self.alias} as (select {', '.join(self.cols)} from {self.table})"

    def path(self, col):
        """intermediate column names between base column and the outer reference (derived tables / CTEs are sub-queries)"""
        return (self.table, col)


def item_text(kind, refs, n):
    r0 = refs[0]
    r1 = refs[1] if len(refs) > 1 else refs[0]
    r2 = refs[2] if len(refs) > 2 else refs[0]
    if kind == "case3":
        return f"case when {r0} > 0 then {r1} else {r2} end as x{n}", f"x{n}"
    if kind == "nested":
        return f"coalesce(upper({r0}), cast({r1} as int), {r2}) as x{n}", f"x{n}"
    if kind == "paren":
        # an operand written BEFORE a parenthesised group, and one after it
        return f"{r0} * ({r1} + {r2}) - {r1} as x{n}", f"x{n}"
    if kind == "window2":
        return f"row_number() over (partition by {r0} order by {r1}, {r2} desc) as x{n}", f"x{n}"
    if kind == "col":
        return r0, None
    if kind == "alias":
        return f"{r0} as x{n}", f"x{n}"
    if kind == "func":
        return f"coalesce({r0}, {r1}) as x{n}", f"x{n}"
    if kind == "case":
        return f"case when {r0} > 0 then {r1} else {r0} end as x{n}", f"x{n}"
    if kind == "cast":
        return f"cast({r0} as int) as x{n}", f"x{n}"
    if kind == "arith":
        return f"{r0} + {r1} * 2 as x{n}", f"x{n}"
    if kind == "window":
        return f"sum({r0}) over (partition by {r1}) as x{n}", f"x{n}"
    raise ValueError(kind)


NREFS = {"col": 1, "alias": 1, "cast": 1, "func": 2, "case": 2, "arith": 2, "window": 2, "case3": 3, "nested": 3, "window2": 3, "paren": 3}


class Stmt:
    """rels: list[Rel]; items: list[(kind, [(rel index, column)], qualified: bool)]; explicit: list[str] | None"""

    def __init__(self, rels, items, explicit=None, target="s1.tgt", join="join"):
        self.rels, self.items, self.explicit, self.target, self.join = rels, items, explicit, target, join

    def select_text(self):
        texts = []
        for n, (kind, refs, qualified) in enumerate(self.items):
            spelled = [(self.rels[ri].qual() + "." if qualified else "") + c for ri, c in refs]
            texts.append(item_text(kind, spelled, n)[0])
        frm = self.rels[0].from_text()
        for r in self.rels[1:]:
            frm += f" {self.join} {r.from_text()} on {self.rels[0].qual()}.id = {r.qual()}.id"
        return f"select {', '.join(texts)} from {frm}"

    def sql(self):
        ctes = []
        for r in self.rels:
            if r.kind in ("cte", "cte2") and r.alias not in [c.alias for c in ctes]:
                ctes.append(r)
        w = ("with " + ", ".join(r.with_text() for r in ctes) + " ") if ctes else ""
        cols = f" ({', '.join(self.explicit)})" if self.explicit else ""
        return f"insert into {self.target}{cols} {w}{self.select_text()}"

    def target_names(self):
        out = []
        for n, (kind, refs, qualified) in enumerate(self.items):
            alias = item_text(kind, ["r", "r"], n)[1]
            out.append(alias or refs[0][1])
        if self.explicit:
            out = list(self.explicit)
        return out

    def expected(self):
        """set of (source column printed name, target column printed name); an unqualified reference in a multi-relation
        scope is reported unresolved (bare column name, candidates = every relation in scope)"""
        exp = set()
        for (kind, refs, qualified), tname in zip(self.items, self.target_names()):
            used = refs[: NREFS[kind]]
            for ri, c in used:
                # an unqualified reference is disambiguated by a sub-query / CTE in scope that exposes the column (its column
                # list is known from the statement itself); base tables have no known columns without metadata
                exposing = [r for r in self.rels if r.kind != "table" and c in r.cols]
                if qualified or len(self.rels) == 1:
                    exp.add((f"{self.rels[ri].table}.{c}", f"{self.target}.{tname}"))
                elif exposing:
                    for r in exposing:
                        exp.add((f"{r.table}.{c}", f"{self.target}.{tname}"))
                else:
                    exp.add((c, f"{self.target}.{tname}"))
        return exp


def union_sql(stmts):
    """set operation: target columns are named by the first branch, positions line up"""
    first = stmts[0]
    cols = f" ({', '.join(first.explicit)})" if first.explicit else ""
    sql = f"insert into {first.target}{cols} " + " union all ".join(s.select_text() for s in stmts)
    names = first.target_names()
    exp = set()
    for s in stmts:
        for (kind, refs, qualified), tname in zip(s.items, names):
            used = refs[: NREFS[kind]]
            for ri, c in used:
                exp.add((f"{s.rels[ri].table}.{c}", f"{first.target}.{tname}"))
    return sql, exp


def _full(rel):
    rel.fullqual = True
    return rel


def statements(thorough=False):
    """bounded-exhaustive family: every select-item kind x scope shape x naming mode (+ seeded extras in thorough mode)"""
    out = []
    shapes = {
        "one_table": [Rel("table", "s1.ta")],
        "one_alias": [Rel("table", "s1.ta", "x")],
        "join2": [Rel("table", "s1.ta", "x"), Rel("table", "s1.tb", "y")],
        "join2_noalias": [Rel("table", "s1.ta"), Rel("table", "s1.tb")],
        "derived": [Rel("derived", "s1.ta", "d")],
        "derived_inner_alias": [Rel("derived", "s1.ta", "d", inner_alias="i")],
        "cte": [Rel("cte", "s1.ta", "c")],
        "join_derived": [Rel("table", "s1.tb", "y"), Rel("derived", "s1.ta", "d")],
        "join3": [Rel("table", "s1.ta", "x"), Rel("table", "s1.tb", "y"), Rel("table", "s1.tc", "z")],
        "derived2": [Rel("derived2", "s1.ta", "d")],
        "cte_from_cte": [Rel("cte2", "s1.ta", "c")],
        "cte_join_table": [Rel("cte", "s1.ta", "c"), Rel("table", "s1.tb", "y")],
        # a CTE whose name is the bare name of a real table of another schema-qualified relation in the statement
        "cte_named_like_table": [Rel("cte", "s1.ta", "tb"), Rel("table", "s1.tc", "z")],
        "alias_case": [Rel("table", "s1.ta", "Xa"), Rel("table", "s1.tb", "yB")],
        # an alias spelled like the bare name of ANOTHER table of the same scope (which itself is aliased): the alias shadows it
        "alias_like_other_table": [Rel("table", "s1.ta", "tb"), Rel("table", "s1.tb", "y")],
        "one_table_fullqual": [_full(Rel("table", "s1.ta"))],
        "join2_fullqual": [_full(Rel("table", "s1.ta")), _full(Rel("table", "s1.tb"))],
    }
    for sname, rels in shapes.items():
        for kind in KINDS:
            r0 = 0
            r1 = len(rels) - 1
            refs = [(r0, rels[r0].cols[0]), (r1, rels[r1].cols[1] if len(rels[r1].cols) > 2 else rels[r1].cols[0]), (r0, rels[r0].cols[-1])]
            for explicit in (None, ["e1", "e2"]):
                items = [(kind, refs, True), ("col", [(r1, rels[r1].cols[0])], True)]
                out.append((f"{sname}/{kind}/{'list' if explicit else 'names'}", Stmt(rels, items, explicit)))
        # unqualified references: resolved with one relation, unresolved with several
        items = [("col", [(0, rels[0].cols[0])], False), ("arith", [(0, rels[0].cols[1]), (0, rels[0].cols[0])], False)]
        out.append((f"{sname}/unqualified", Stmt(rels, items)))
    return out


def unions():
    a = Stmt([Rel("table", "s1.ta", "x")], [("col", [(0, "a1")], True), ("alias", [(0, "a2")], True)])
    b = Stmt([Rel("table", "s1.tb", "y")], [("col", [(0, "b1")], True), ("col", [(0, "b2")], True)])
    c = Stmt([Rel("table", "s1.tc")], [("col", [(0, "id")], False), ("col", [(0, "c1")], False)])
    # same alias for different relations in sibling branches (scopes must not leak)
    d = Stmt([Rel("table", "s1.tb", "x")], [("col", [(0, "b2")], True), ("col", [(0, "b1")], True)])
    e = Stmt([Rel("table", "s1.ta", "x")], [("col", [(0, "a2")], True), ("col", [(0, "a1")], True)])
    out = []
    for name, group in {"ab": [a, b], "abc": [a, b, c], "same_alias": [a, d], "same_alias3": [e, d, a], "unordered_names": [e, b]}.items():
        out.append((f"union/{name}", union_sql(group)))
    e2 = Stmt([Rel("table", "s1.ta", "x")], [("col", [(0, "a2")], True), ("col", [(0, "a1")], True)], explicit=["e1", "e2"])
    out.append(("union/explicit", union_sql([e2, b])))
    return out


def wildcards():
    """SELECT * over each kind of relation: one wildcard per relation in scope; a derived table / CTE expands to its own column
    list (known from the statement itself), a base table without metadata stays `*`"""
    out = []
    out.append(("wildcard/derived", ("insert into s1.tgt select * from (select a1, a2 from s1.ta) d", {("s1.ta.a1", "s1.tgt.a1"), ("s1.ta.a2", "s1.tgt.a2")})))
    out.append(("wildcard/table", ("insert into s1.tgt select * from s1.ta x", {("s1.ta.*", "s1.tgt.*")})))
    out.append(("wildcard/table_join_derived", ("insert into s1.tgt select * from s1.ta x join (select b1 from s1.tb) d on x.id = d.b1", {("s1.ta.*", "s1.tgt.*"), ("s1.tb.b1", "s1.tgt.b1")})))
    out.append(("wildcard/cte_join_table", ("insert into s1.tgt with c as (select c1 from s1.tc) select * from c join s1.ta x on x.id = c.c1", {("s1.ta.*", "s1.tgt.*"), ("s1.tc.c1", "s1.tgt.c1")})))
    out.append(("wildcard/two_tables", ("insert into s1.tgt select * from s1.ta x join s1.tb y on x.id = y.id", {("s1.ta.*", "s1.tgt.*"), ("s1.tb.*", "s1.tgt.*")})))
    return out
