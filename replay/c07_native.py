"""Bounded native check for C07: lineage is invariant under layout, comments and letter case.

Inputs: harvested corpus (test-suite SQL with dialects, TPC-DS in thorough mode) + generated statements.  Token-level rewrites
applied at the whitespace boundaries of the text outside quotes: R1 other whitespace / line breaks, R2 block / line comments,
R3 keyword case, R4 case of unquoted identifiers, R5 quoting of lower-case identifiers (ansi), R6 extra trailing semicolons
(with comments).  quick: every rewrite at all boundaries at once + a seeded choice of single boundaries; thorough: every
every rewrite at up to 12 evenly spaced single boundaries per input.

  --thorough
  --confirm ID    re-run the recorded witnesses of a known finding; exit 1 iff one still fails
"""
import json
import logging
import os
import random
import re
import sys
import warnings

logging.disable(logging.CRITICAL)
warnings.filterwarnings("ignore")

import gen_stmt  # noqa: E402
from corpus import harvest_tests, harvest_tpcds  # noqa: E402

from sqllineage.runner import LineageRunner  # noqa: E402

KEYWORDS = set(
    """select from where insert into overwrite table create view as with join left right full outer inner cross on using and or not in is null case when
    then else end cast union all distinct group by order having limit over partition update set merge matched values delete drop alter rename to if exists
    like between lateral replace temporary temp partitioned stored location directory row format delimited fields terminated using copy
    intersect except minus natural asc desc interval true false""".split()
)
WORD = re.compile(r"[A-Za-z_][A-Za-z_0-9]*")


def regions(sql):
    """split the text into (kind, text) with kind in code | quoted | comment"""
    out, i, n, buf = [], 0, len(sql), ""
    while i < n:
        ch = sql[i]
        if ch in "'\"`":
            j = i + 1
            while j < n and sql[j] != ch:
                j += 1
            if buf:
                out.append(("code", buf)); buf = ""
            out.append(("quoted", sql[i : j + 1])); i = j + 1
        elif sql.startswith("--", i):
            j = sql.find("\n", i)
            j = n if j < 0 else j
            if buf:
                out.append(("code", buf)); buf = ""
            out.append(("comment", sql[i:j])); i = j
        elif sql.startswith("/*", i):
            j = sql.find("*/", i)
            j = n if j < 0 else j + 2
            if buf:
                out.append(("code", buf)); buf = ""
            out.append(("comment", sql[i:j])); i = j
        else:
            buf += ch; i += 1
    if buf:
        out.append(("code", buf))
    return out


def gaps(sql):
    """(start, end) of every whitespace run in code regions (token boundaries eligible for R1/R2)"""
    out, pos, prev = [], 0, None
    for kind, text in regions(sql):
        if kind == "code":
            for m in re.finditer(r"\s+", text):
                if m.start() == 0 and prev is not None and prev.startswith("--"):
                    continue  # the line break that ends a line comment is not layout
                if pos + m.start() > 0 and pos + m.end() < len(sql):
                    out.append((pos + m.start(), pos + m.end()))
        prev = text if kind == "comment" else None
        pos += len(text)
    return out


def at_gaps(sql, which, repl):
    out, last = [], 0
    for k, (a, b) in enumerate(gaps(sql)):
        if which is None or k in which:
            out.append(sql[last:a]); out.append(repl); last = b
    out.append(sql[last:])
    return "".join(out)


def map_words(sql, f):
    out = []
    regs = regions(sql)
    for idx, (kind, text) in enumerate(regs):
        if kind != "code":
            out.append(text)
            continue
        res, last = [], 0
        for m in WORD.finditer(text):
            res.append(text[last : m.start()])
            after = text[m.end() :].lstrip()
            before = text[: m.start()].rstrip()
            res.append(f(m.group(0), after[:1] if after else (""), before[-1:] if before else ""))
            last = m.end()
        res.append(text[last:])
        out.append("".join(res))
    return "".join(out)


def r_keyword_case(sql, mode):
    return map_words(sql, lambda w, nxt, prv: (w.upper() if mode == "upper" else w.lower() if mode == "lower" else w.capitalize()) if w.lower() in KEYWORDS else w)


def r_ident_case(sql):
    return map_words(sql, lambda w, nxt, prv: w.upper() if w.lower() not in KEYWORDS else w)


# words that are functions / constants without parentheses: quoting them would turn them into column references
NILADIC = {"current_timestamp", "current_date", "current_time", "current_user", "session_user", "localtime", "localtimestamp", "sysdate", "user", "rownum"}


def r_quote(sql, q='"'):
    def f(w, nxt, prv):
        if w.lower() in KEYWORDS or w != w.lower() or nxt == "(" or w in ("int", "string", "decimal", "bigint", "varchar", "date", "double", "float", "integer", "char", "timestamp", "boolean") or w in NILADIC:
            return w
        return q + w + q

    return map_words(sql, f)


REWRITES_ALL = [
    ("R1 newline", lambda s: at_gaps(s, None, "\n")),
    ("R1 tab+spaces", lambda s: at_gaps(s, None, " \t  ")),
    ("R2 block comment", lambda s: at_gaps(s, None, " /* c */ ")),
    ("R2 line comment", lambda s: at_gaps(s, None, " -- c\n")),
    ("R3 keywords upper", lambda s: r_keyword_case(s, "upper")),
    ("R3 keywords lower", lambda s: r_keyword_case(s, "lower")),
    ("R3 keywords Capitalised", lambda s: r_keyword_case(s, "cap")),
    ("R4 identifiers upper", r_ident_case),
    ("R6 ;", lambda s: s.rstrip().rstrip(";") + ";"),
    ("R6 ;;", lambda s: s.rstrip().rstrip(";") + ";;"),
    ("R6 ; ;", lambda s: s.rstrip().rstrip(";") + " ; ;\n"),
    ("R6 ; /*c*/ ;", lambda s: s.rstrip().rstrip(";") + "; /* done */ ;"),
    ("R6 ;\\n--c\\n;", lambda s: s.rstrip().rstrip(";") + ";\n-- done\n;"),
]
SINGLE = [("R2 block comment", " /* c */ "), ("R2 line comment", " -- c\n"), ("R1 newline", "\n")]
PLAIN = re.compile(r"^[A-Za-z_][A-Za-z_0-9]*$")


def norm_col(name):
    """display name of an un-aliased expression column may follow the expression's text: compare it modulo layout and case"""
    parts = name.rsplit(".", 1)
    last = parts[-1]
    if PLAIN.match(last) or last == "*":
        return name.lower()
    return "<expr>" if len(parts) == 1 else parts[0].lower() + ".<expr>"


def answer(sql, dialect):
    r = LineageRunner(sql, dialect=dialect)
    def nc(c):
        # owner and name are taken apart on the objects (an expression's text may itself contain dots)
        owner = str(c.parent).lower() if c.parent is not None else ""
        name = c.raw_name.lower() if (PLAIN.match(c.raw_name) or c.raw_name == "*") else "<expr>"
        return owner + "." + name

    cols = sorted({(nc(p[0]), nc(p[-1])) for p in r.get_column_lineage()})
    tabs = [sorted(str(t).lower() for t in getattr(r, k + "_tables")) for k in ("source", "target", "intermediate")]
    return tabs, cols


# known findings: (finding id) -> list of (sql, dialect, rewrite name)
# D38: sqlparse analyzer + double-quoted keyword-like words (host, segment, summary): quoting changes the answer
KNOWN = {
    "D38": [["INSERT INTO tab1 SELECT host FROM tab2 a", "non-validating", "R5 quote lower-case identifiers"], ["WITH summary AS (SELECT * FROM segment) INSERT INTO host SELECT * FROM summary", "non-validating", "R5 quote lower-case identifiers"], ["INSERT INTO host SELECT col1, col2 FROM segment", "non-validating", "R5 quote lower-case identifiers"], ["SELECT col1, col2 FROM segment", "non-validating", "R5 quote lower-case identifiers"]],
}


def main():
    thorough = "--thorough" in sys.argv
    confirm = sys.argv[sys.argv.index("--confirm") + 1] if "--confirm" in sys.argv else None
    rnd = random.Random(int(os.environ.get("VERIF_SEED", "0")))
    inputs = [(st.sql(), "ansi", name) for name, st in gen_stmt.statements() if thorough or "/col/" in name or "/func/" in name or "unqualified" in name]
    inputs += [(sql, "ansi", name) for name, (sql, exp) in gen_stmt.unions()]
    # repaired D17: layout inside a dotted reference (the T-SQL grammar admits it)
    inputs += [("insert into t select * from a.b", "tsql", "D17"), ("insert into t select c1 from x.a.b", "tsql", "D17")]
    corp = harvest_tests()
    if thorough:
        corp += harvest_tpcds()[:10]
    inputs += corp
    # the sqlparse-based analyzer sees the same texts (generated + every ansi corpus input)
    # (TPC-DS texts are run under the sqlfluff analyzer only: D40 records what the deprecated analyzer does with them)
    inputs += [(q, "non-validating", w) for q, d_, w in list(inputs) if d_ == "ansi" and not w.startswith("sqllineage/data/tpcds")]
    if confirm == "D40":
        qs = {os.path.basename(w): q for q, d_, w in harvest_tpcds()}
        bad = []
        for fn, rw in (("query04.sql", "R1 newline"), ("query05.sql", "R5 quote lower-case identifiers")):
            q = qs[fn]
            v = dict(REWRITES_ALL)[rw](q) if rw in dict(REWRITES_ALL) else r_quote(q)
            if answer(q, "non-validating") != answer(v, "non-validating"):
                bad.append({"clause": "tables_unchanged_by_layout", "file": fn, "rewrite": rw, "dialect": "non-validating"})
        print(json.dumps({"violations": bad}))
        return 1 if bad else 0
    # quick tier: every input, but only the QUICK_REWRITES whole-text rewrites; single boundaries only on generated statements
    QUICK_REWRITES = {"R1 newline", "R2 block comment", "R2 line comment", "R3 keywords Capitalised", "R4 identifiers upper", "R6 ;;", "R6 ; /*c*/ ;"}
    fails, evals, nontrivial, skipped = [], 0, 0, 0
    known = {(" ".join(s.split()), d, rw) for v in KNOWN.values() for s, d, rw in v}
    confirm_inputs = {(" ".join(s_.split()), d_) for s_, d_, _ in KNOWN.get(confirm, [])} if confirm else None
    for sql, dialect, where in inputs:
        if confirm_inputs is not None and (" ".join(sql.split()), dialect) not in confirm_inputs:
            continue
        try:
            base = answer(sql, dialect)
        except Exception:
            skipped += 1
            continue
        variants = [(n, f(sql)) for n, f in REWRITES_ALL if thorough or n in QUICK_REWRITES]
        if dialect in ("ansi", "non-validating") and "`" not in sql and '"' not in sql:
            variants.append(("R5 quote lower-case identifiers", r_quote(sql)))
        if where == "D17":
            variants += [("R1 layout inside a dotted reference", sql.replace(".", " . ")), ("R2 comment inside a dotted reference", sql.replace(".", "./*c*/"))]
        g = gaps(sql)
        if thorough:
            step_ = max(1, len(g) // 12)
            picks = list(range(0, len(g), step_))[:12]  # at most 12 evenly spaced boundaries per input
        else:
            picks = rnd.sample(range(len(g)), min(2, len(g))) if "/" in where and not where.startswith("tests/") else []
        for k in picks:
            for n, repl in SINGLE:
                variants.append((f"{n} @gap{k}", at_gaps(sql, {k}, repl)))
        for name, v in variants:
            if v == sql:
                continue
            key = (" ".join(sql.split()), dialect, name.split(" @")[0])
            if confirm:
                if key not in {(" ".join(s.split()), d, rw) for s, d, rw in KNOWN.get(confirm, [])}:
                    continue
            elif key in known:
                continue
            evals += 1
            try:
                got = answer(v, dialect)
            except Exception as e:
                fails.append({"clause": "rewritten_text_still_analyses", "rewrite": name, "dialect": dialect, "sql": sql[:300], "rewritten": v[:400], "error": repr(e)[:160], "where": where})
                continue
            if got[1]:
                nontrivial += 1
            if got[0] != base[0]:
                fails.append({"clause": "tables_unchanged_by_layout", "rewrite": name, "dialect": dialect, "sql": sql[:300], "rewritten": v[:400], "got": got[0], "want": base[0], "where": where})
            elif got[1] != base[1]:
                fails.append({"clause": "named_column_lineage_unchanged_by_layout", "rewrite": name, "dialect": dialect, "sql": sql[:300], "rewritten": v[:400], "got": got[1][:8], "want": base[1][:8], "where": where})
    by = {}
    for f in fails:
        by.setdefault((f["clause"], f["rewrite"].split(" @")[0], f["dialect"], f["sql"][:60]), f)
    print(json.dumps({"evaluations": evals, "inputs": len(inputs), "skipped_inputs": skipped, "distinct_nontrivial": nontrivial, "violations": list(by.values())[:60], "n_violations": len(fails), "input": fails[0] if fails else None}))
    return 1 if fails else 0


if __name__ == "__main__":
    sys.exit(main())
