"""Native crash-point enumeration for C12 on the real LineageRunner (bounded cross-check and replay).
For every script of 1..n statements with a failure injected at position k (unsupported or unparsable statement) or a
provider raising on its j-th lookup, the provider is afterwards (a) inspected: session map must be empty, (b) reused for a
probe run whose result must equal the same probe on a fresh provider."""
import itertools
import json
import sys

from sqllineage.core.metadata.dummy import DummyMetaDataProvider
from sqllineage.runner import LineageRunner

GOOD = [
    "create table db1.tmp as select a, b from db1.src",
    "insert into db1.out select * from db1.tmp",
    "insert into db1.tmp2 select x from db1.tmp",
    "select * from db1.tmp2",
]
BAD = ["grant select on t to u", "insert into into x"]
PROBE = "insert into db1.probe select * from db1.tmp; insert into db1.p2 select * from db1.tmp2"
META = {"db1.src": ["a", "b"], "db1.tmp": ["x", "y"], "db1.tmp2": ["z"]}


class Boom(Exception):
    pass


class FlakyProvider(DummyMetaDataProvider):
    def __init__(self, metadata, fail_at):
        super().__init__(metadata)
        self.calls, self.fail_at = 0, fail_at

    def _get_table_columns(self, schema, table, **kwargs):
        self.calls += 1
        if self.calls == self.fail_at:
            raise Boom()
        return super()._get_table_columns(schema, table, **kwargs)


def dump(sql, provider):
    r = LineageRunner(sql, metadata_provider=provider)
    return (
        [str(t) for t in r.source_tables],
        [str(t) for t in r.target_tables],
        [str(t) for t in r.intermediate_tables],
        sorted(tuple(str(c) for c in p) for p in r.get_column_lineage()),
    )


def main():
    n = 3
    a = sys.argv[1:]
    while a:
        if a[0] == "--n":
            n = int(a[1]); a = a[2:]
        else:
            a = a[1:]
    fresh = dump(PROBE, DummyMetaDataProvider(dict(META)))
    evals, distinct, fails = 0, set(), []
    for length in range(1, n + 1):
        for stmts in itertools.product(range(len(GOOD)), repeat=length):
            for k in range(length + 1):
                for bad in [None] + BAD:
                    for fail_at in (0, 1, 2, 3):
                        if bad is None and fail_at == 0 and k > 0:
                            continue
                        if bad is not None and fail_at:
                            continue
                        script = [GOOD[i] for i in stmts]
                        if bad is not None:
                            script.insert(k, bad)
                        elif k > 0:
                            continue
                        sql = ";\n".join(script)
                        prov = FlakyProvider(dict(META), fail_at)
                        evals += 1
                        distinct.add((sql, fail_at))
                        failed = False
                        try:
                            LineageRunner(sql, metadata_provider=prov)._eval()
                        except Exception:
                            failed = True
                        prov.fail_at = 0
                        leak = dict(prov._session_metadata)
                        w = {"script": sql, "provider_fails_at_lookup": fail_at, "run_failed": failed}
                        if leak:
                            fails.append(dict(w, clause="ensures.session_forgotten" if not failed else "raises.*.ensures.session_forgotten_however_the_run_ends", leaked=leak))
                        else:
                            again = dump(PROBE, prov)
                            if again != fresh:
                                fails.append(dict(w, clause="reused_provider_answers_as_fresh", got=str(again), want=str(fresh)))
                        # the shared default provider must stay empty and falsy as well
                        dflt = LineageRunner.__init__.__defaults__[1]
                        if dflt._session_metadata and len(fails) < 5:
                            fails.append(dict(w, clause="default_provider_session_empty", leaked=dict(dflt._session_metadata)))
                        if len(fails) >= 3:
                            break
                    if len(fails) >= 3:
                        break
                if len(fails) >= 3:
                    break
            if len(fails) >= 3:
                break
        if len(fails) >= 3:
            break
    print(json.dumps({"evaluations": evals, "distinct_nontrivial": len(distinct), "violations": fails, "input": fails[0] if fails else None}))
    return 1 if fails else 0


if __name__ == "__main__":
    sys.exit(main())
