"""Native bounded check / replay for C18 on the real runner: for a corpus of scripts and both export levels, the export must
list exactly the nodes and edges of the lineage graph, every endpoint / parent reference must be the id of an exported node,
and the text summary must list the accessor lists (each table once, sorted) with the right statement count.
Duplicate ids (known finding D15) are reported separately as clause ensures.ids_unique."""
import json
import re
import sys

from sqllineage.core.metadata.dummy import DummyMetaDataProvider
from sqllineage.runner import LineageRunner
from sqllineage.utils.constant import LineageLevel

CORPUS = [
    "insert into t2 select a, b from t1",
    "insert into t3 select a from t1 join t2 on t1.id = t2.id",
    "insert into t1 select * from t1 join t2 on t1.id = t2.id",
    "insert into t1 select * from t0; select * from t1",
    "insert into b select * from a; insert into c select * from b; select count(*) from b",
    "insert into t select x.a from (select a from s1) x",
    "insert into t select x.a from (select a from s1) x; insert into u select x.a from (select a from s2) x",
    "create table t as select a + b as c from s where a in (select a from s2)",
    "insert overwrite directory 'hdfs://p/out' select a from t1",
    "with c as (select a from s) insert into t select a from c",
    "insert into t (x, y) select a, b from s union all select c, d from u",
    "drop table a; alter table b rename to c; insert into d select * from c",
    "select 1",
    "",
    # tables that no table-level edge touches (source-only / target-only statements)
    "select * from lookup",
    "create table fresh (id int)",
    "insert into t values (1, 2)",
    "insert into a select * from b; select * from lookup; create table fresh (id int); update t set c = 1",
]
META = {"<default>.t1": ["id", "a", "b"], "<default>.t2": ["id", "c"], "<default>.s": ["a", "b"]}


def check(sql, provider, want_clause=None):
    fails = []
    r = LineageRunner(sql, metadata_provider=provider)
    holder_ok = True
    try:
        r._eval()
    except Exception:
        return fails
    # the oracle views are computed here from the COMBINED graph, not through the holder's own view accessors
    from sqllineage.core.models import Column, Path, Table

    full = r._sql_holder.graph
    table_view = full.subgraph([n for n in full.nodes if isinstance(n, (Table, Path))])
    column_view = full.subgraph([n for n in full.nodes if isinstance(n, Column)])
    for level, graph, compound in ((LineageLevel.TABLE, table_view, False), (LineageLevel.COLUMN, column_view, True)):
        exp = r.to_cytoscape(level)
        recs = [e["data"] for e in exp]
        edge_recs = [d for d in recs if "source" in d]
        node_recs = [d for d in recs if "source" not in d]
        ids = [d["id"] for d in node_recs]
        nodes = list(graph.nodes)
        lvl = "column" if compound else "table"
        if compound:
            col_recs = [d for d in node_recs if "parent" in d]
            owner_recs = [d for d in node_recs if "parent" not in d]
            if sorted(d["id"] for d in col_recs) != sorted(str(n) for n in nodes):
                fails.append({"clause": "ensures.column_records_are_exactly_the_columns", "level": lvl})
            owners = {str(n.parent) if n.parent is not None else "<unknown>" for n in nodes}
            if {d["id"] for d in owner_recs} != owners:
                fails.append({"clause": "ensures.owner_records_are_exactly_the_owners", "level": lvl, "got": sorted(d["id"] for d in owner_recs), "want": sorted(owners)})
            for d in col_recs:
                if d["parent"] not in {o["id"] for o in owner_recs}:
                    fails.append({"clause": "ensures.every_parent_reference_is_an_exported_owner_id", "level": lvl, "column": d["id"], "parent": d["parent"]})
                    break
        else:
            if sorted(ids) != sorted(str(n) for n in nodes):
                fails.append({"clause": "ensures.node_records_are_exactly_the_tables", "level": lvl})
        if sorted((d["source"], d["target"]) for d in edge_recs) != sorted((str(u), str(v)) for u, v in graph.edges):
            fails.append({"clause": "ensures.edge_records_are_exactly_the_edges", "level": lvl})
        for d in edge_recs:
            if d["source"] not in ids or d["target"] not in ids:
                fails.append({"clause": "ensures.every_edge_endpoint_is_an_exported_node_id", "level": lvl, "edge": d})
                break
        if len(set(ids)) != len(ids):
            fails.append({"clause": "ensures.ids_unique", "level": lvl, "duplicates": sorted({i for i in ids if ids.count(i) > 1})})
        eids = [d["id"] for d in edge_recs]
        if len(set(eids)) != len(eids):
            fails.append({"clause": "ensures.ids_unique", "level": lvl, "duplicates": "edge ids"})
    # text summary
    text = str(r)
    m = re.match(r"Statements\(#\): (\d+)\nSource Tables:\n    (.*?)\nTarget Tables:\n    (.*?)\n(?:Intermediate Tables:\n    (.*))?$", text, re.S)
    if not m:
        fails.append({"clause": "ensures.summary_lists_the_same_tables_in_the_same_sorted_order", "why": "unparsable summary", "text": text})
    else:
        sec = lambda s: [x for x in (s or "").split("\n    ") if x]
        got = (int(m.group(1)), sec(m.group(2)), sec(m.group(3)), sec(m.group(4)))
        want = (len(r.statements()), [str(t) for t in r.source_tables], [str(t) for t in r.target_tables], [str(t) for t in r.intermediate_tables])
        if got != want:
            fails.append({"clause": "ensures.summary_lists_the_same_tables_in_the_same_sorted_order", "got": str(got), "want": str(want)})
        for lst, holder_set in ((want[1], r._sql_holder.source_tables), (want[2], r._sql_holder.target_tables), (want[3], r._sql_holder.intermediate_tables)):
            if lst != sorted(lst) or len(set(lst)) != len(lst) or set(lst) != {str(t) for t in holder_set}:
                fails.append({"clause": "ensures.same_tables_as_the_graph_roles", "list": lst})
    for f in fails:
        f["sql"] = sql
        f["metadata"] = bool(provider)
    return fails


def main():
    evals, fails = 0, []
    for sql in CORPUS:
        for prov in (DummyMetaDataProvider(), DummyMetaDataProvider(dict(META))):
            evals += 1
            fails.extend(check(sql, prov))
    known = [f for f in fails if f["clause"] == "ensures.ids_unique"]
    other = [f for f in fails if f["clause"] != "ensures.ids_unique"]
    only = None
    if "--clause" in sys.argv:
        only = sys.argv[sys.argv.index("--clause") + 1]
    if "--confirm-ids" in sys.argv:
        print(json.dumps({"evaluations": evals, "violations": known[:3], "input": known[0] if known else None}))
        return 1 if known else 0
    print(json.dumps({"evaluations": evals, "distinct_nontrivial": len([s for s in CORPUS if s.strip()]) * 2, "violations": other[:5], "known_duplicate_id_witnesses": len(known), "input": other[0] if other else None}))
    return 1 if other else 0


if __name__ == "__main__":
    sys.exit(main())
