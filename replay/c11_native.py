"""Bounded native check for C11: canonical dumps of all public accessors (a) across subprocesses started with different
PYTHONHASHSEED values and (b) across all accessor-call orders / repetitions inside one process."""
import itertools
import json
import os
import subprocess
import sys

SCRIPTS = [
    # a write-only statement next to ordinary ones (target-only tag), two roles for one table
    ("insert into t values (1, 2); insert into u select a from s; select * from u", None),
    # printed names that differ only in letter case (quoted identifiers keep their case): ties under a case-insensitive key
    ('insert into "Tgt" select a from "Src"; insert into tgt select a from src; insert into mid select a from "Src"; insert into "Mid" select a from mid; insert into o select a from "Mid"; insert into o2 select a from mid', None),
    ("insert into t2 select a, b from t1; insert into t3 select a from t2", None),
    ("insert into tab1 select * from tab1 x join tab2 y on x.id = y.id; select * from tab1", None),
    ("insert into t select x.a + y.b as c from (select a from s) x join (select a as b from s where 1=1) y on x.a = y.b", None),
    ("create table stg.customer as select uid, name, country from ods.users; insert into stg.customer select id, nm, ctry from ods.users2", {"ods.users": ["uid", "name", "country"]}),
    ("insert into db.o select * from db.a", {"db.a": ["id", "x", "y", "z"]}),
    ("insert into t select a, b, c, d, e from s1 join s2 on s1.id = s2.id", None),
    ("insert into b select * from a; rename table b to c, c to d", "mysql"),
    ("alter table a rename to b; insert into c select * from b; drop table z", None),
    ("with c1 as (select a, b from s), c2 as (select a from c1) insert into t select c2.a, c1.b from c2 join c1 on c2.a = c1.a", None),
    # repaired D12: SELECT * over a join whose tables share a column name, with metadata
    ("insert into db.o select * from db.a join db.b on a.id = b.id", {"db.a": ["id", "x"], "db.b": ["id", "y"]}),
]
KNOWN_D12 = ("insert into db.o select * from db.a join db.b on a.id = b.id", {"db.a": ["id", "x"], "db.b": ["id", "y"]})


def dump(sql, meta, order=("source", "target", "intermediate", "columns", "dag", "cdag", "str")):
    from sqllineage.core.metadata.dummy import DummyMetaDataProvider
    from sqllineage.runner import LineageRunner
    from sqllineage.utils.constant import LineageLevel

    kw = {}
    if isinstance(meta, dict):
        kw["metadata_provider"] = DummyMetaDataProvider(meta)
    elif isinstance(meta, str):
        kw["dialect"] = meta
    r = LineageRunner(sql, **kw)
    acc = {
        "source": lambda: [str(t) for t in r.source_tables],
        "target": lambda: [str(t) for t in r.target_tables],
        "intermediate": lambda: [str(t) for t in r.intermediate_tables],
        "columns": lambda: [[str(c) for c in p] for p in r.get_column_lineage()],
        "dag": lambda: sorted(json.dumps(e["data"] if "source" not in e["data"] else {k: v for k, v in e["data"].items() if k != "id"}, sort_keys=True) for e in r.to_cytoscape()),
        "cdag": lambda: sorted(json.dumps(e["data"] if "source" not in e["data"] else {k: v for k, v in e["data"].items() if k != "id"}, sort_keys=True) for e in r.to_cytoscape(LineageLevel.COLUMN)),
        "str": lambda: str(r),
    }
    out = {}
    for name in order:
        out[name] = acc[name]()
    return out


def child():
    i = int(sys.argv[2])
    scripts = SCRIPTS + ([KNOWN_D12] if "--d12" in sys.argv else [])
    if i < 0:
        out = []
        for sql, meta in scripts:
            try:
                out.append(json.dumps(dump(sql, meta), sort_keys=True))
            except Exception as e:
                out.append("EXC " + type(e).__name__)
        print(json.dumps(out))
        return
    sql, meta = scripts[i]
    print(json.dumps(dump(sql, meta), sort_keys=True))


def main():
    if len(sys.argv) > 1 and sys.argv[1] == "--child":
        return child()
    seeds = [0, 1, 2, 3]
    a = sys.argv[1:]
    while a:
        if a[0] == "--seeds":
            seeds = list(range(int(a[1]))); a = a[2:]
        else:
            a = a[1:]
    fails, evals = [], 0
    if "--confirm-d12" in sys.argv:
        outs = set()
        for s in range(8):
            p = subprocess.run([sys.executable, __file__, "--child", str(len(SCRIPTS)), "--d12"], capture_output=True, text=True, env=dict(os.environ, PYTHONHASHSEED=str(s)))
            outs.add(p.stdout.strip())
        print(json.dumps({"violations": [{"clause": "same_answers_under_every_hash_seed", "distinct_dumps": len(outs)}]}))
        return 1 if len(outs) > 1 else 0
    per_seed = {}
    for s in seeds:
        evals += len(SCRIPTS)
        p = subprocess.run([sys.executable, __file__, "--child", "-1"], capture_output=True, text=True, env=dict(os.environ, PYTHONHASHSEED=str(s)))
        try:
            per_seed[s] = json.loads(p.stdout.strip().splitlines()[-1])
        except Exception:
            per_seed[s] = ["ERR " + p.stderr[-200:]] * len(SCRIPTS)
    for i, (sql, meta) in enumerate(SCRIPTS):
        outs = {}
        for s in seeds:
            outs.setdefault(per_seed[s][i], []).append(s)
        if len(outs) > 1:
            fails.append({"clause": "same_answers_under_every_hash_seed", "sql": sql, "metadata": meta, "dumps_by_seeds": {str(v): k[:300] for k, v in outs.items()}})
    # accessor order / repetition inside one process
    names = ("source", "target", "intermediate", "columns", "dag", "cdag", "str")
    for sql, meta in SCRIPTS[:6]:
        ref = dump(sql, meta)
        for order in list(itertools.permutations(("source", "target", "intermediate"))) + [("str", "source", "target"), ("target", "target", "source", "source", "str"), ("cdag", "columns", "dag", "str", "intermediate"), ("columns", "columns")]:
            evals += 1
            twice = tuple(order) + tuple(order)
            from sqllineage.runner import LineageRunner  # noqa

            got = {}
            r_order = [n for n in twice]
            d1 = dump(sql, meta, order=r_order[: len(order)])
            # same runner, repeated reads
            from sqllineage.core.metadata.dummy import DummyMetaDataProvider

            kw = {}
            if isinstance(meta, dict):
                kw["metadata_provider"] = DummyMetaDataProvider(meta)
            elif isinstance(meta, str):
                kw["dialect"] = meta
            r = LineageRunner(sql, **kw)
            seen = {}
            ok = True
            for n in twice:
                v = {"source": lambda: [str(t) for t in r.source_tables], "target": lambda: [str(t) for t in r.target_tables], "intermediate": lambda: [str(t) for t in r.intermediate_tables], "columns": lambda: [[str(c) for c in p] for p in r.get_column_lineage()], "str": lambda: str(r), "dag": lambda: len(r.to_cytoscape()), "cdag": lambda: len(r.to_cytoscape("column"))}[n]()
                if n in ref and n not in ("dag", "cdag") and v != ref[n]:
                    fails.append({"clause": "accessors_can_be_called_in_any_order_any_number_of_times", "sql": sql, "order": list(twice), "accessor": n, "got": str(v)[:300], "want": str(ref[n])[:300]})
                    ok = False
                    break
            if not ok:
                break
    # the same accessor called with different KEYWORD arguments on one runner, in both orders, against fresh runners
    from sqllineage.runner import LineageRunner as _LR

    # a derived table that exposes a column nobody reads outside: a path that ENDS in a sub-query (visible only with the flag off)
    SUBQ = [("insert into tgt select s.a from (select a, b from src) s", None), ("insert into tgt with c as (select a, b from src) select c.a from c", None)]
    for sql, meta in SCRIPTS[:6] + SUBQ:
        def fresh():
            return _LR(sql)

        ref = {
            "dag": len(fresh().to_cytoscape()),
            "cdag": len(fresh().to_cytoscape(level="column")),
            "cols": [[str(c) for c in p] for p in fresh().get_column_lineage()],
            "cols_nosub": [[str(c) for c in p] for p in fresh().get_column_lineage(exclude_subquery_columns=True)],
            "cols_all_ends": [[str(c) for c in p] for p in fresh().get_column_lineage(exclude_path_ending_in_subquery=False)],
        }
        calls = {
            "dag": lambda r: len(r.to_cytoscape()),
            "cdag": lambda r: len(r.to_cytoscape(level="column")),
            "cols": lambda r: [[str(c) for c in p] for p in r.get_column_lineage()],
            "cols_nosub": lambda r: [[str(c) for c in p] for p in r.get_column_lineage(exclude_subquery_columns=True)],
            "cols_all_ends": lambda r: [[str(c) for c in p] for p in r.get_column_lineage(exclude_path_ending_in_subquery=False)],
        }
        for order in (("dag", "cdag", "dag"), ("cdag", "dag"), ("cols", "cols_nosub", "cols"), ("cols_nosub", "cols"), ("cols_all_ends", "cols", "cols_all_ends"), ("cols", "cols_all_ends", "cols"), ("cols_all_ends", "cols_nosub", "cols")):
            evals += 1
            r = fresh()
            for n in order:
                if calls[n](r) != ref[n]:
                    fails.append({"clause": "accessors_can_be_called_in_any_order_any_number_of_times", "sql": sql, "order": list(order), "accessor": n + " (keyword arguments)"})
                    break
    print(json.dumps({"evaluations": evals, "distinct_nontrivial": len(SCRIPTS) * len(seeds), "violations": fails[:4], "input": fails[0] if fails else None, "seeds": seeds}))
    return 1 if fails else 0


if __name__ == "__main__":
    sys.exit(main())
